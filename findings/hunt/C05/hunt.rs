// Bug hunt for property C05:
//   "Damaged metadata is reported, never silently decoded into different values".
//
// Every test builds one (small) container with an unusual-but-valid configuration, records
// everything the reader says about it (the "structure" dump), then alters stored bytes and reads
// again.  The property holds for an alteration when
//   * the reader fails (error, or a panic: loud, not silent), or
//   * the structure dump is identical to the baseline, and either the content bytes are identical
//     too or `Container::check()` does not answer `Ok(true)`.
// A test FAILS when some alteration gives a different structure without error, or different
// content bytes with a passing integrity check.
//
// Hypotheses (all the non ignored tests PASS on the unmodified library: no violation found):
//   h01  one file container, plain value store: every byte x 3 masks
//   h02  two files, indexed value store (indirect arrays), variants: every byte x 3 masks
//   h03  one file per pack + an extra content pack found by FsLocator, two indexes, constant
//        column stored as a default of the layout, arrays partly kept in the entry
//   h04  zstd container: every byte but the compressed streams
//   h05  blocks bigger than 4 KiB (mapped instead of copied), value store > 64 KiB
//   h06  zeroed ranges (2 .. 1024 bytes)
//   h07  ranges overwritten with 0xff / random bytes / bytes that belong a bit further
//   h08  truncation at every length, extension with zeros and with a second tail header
//   h09  container without any entry nor content, container with one empty content
//   h10/h11 bare content pack, file reader and in-memory reader, table of 4092/4096/4100 bytes
//   h15  damage inside zstd (lz4, lzma with the features) streams, read in a child process
// Ignored (fail by construction or debatable scope, see the comments):
//   h12  alteration made after the container has been opened (mapped blocks are not re-verified)
//   h13  XOR of the CRC generator polynomial, h14 swap of two valid blocks of the same size
//   side_manifest_pack_check_info_is_unreadable: loud defect on pristine files, not C05

use jubako as jbk;

use jbk::creator::schema;
use jbk::creator::EntryStoreTrait;
use jbk::reader::builder::AnyBuilder;
use jbk::reader::{EntryTrait, Range};
use jbk::Pack;
use std::collections::HashMap;
use std::fmt::Write as _;
use std::io::Read;
use std::panic::{catch_unwind, AssertUnwindSafe};
use std::path::{Path, PathBuf};
use std::sync::{Arc, Once};

const VENDOR_ID: jbk::VendorId = jbk::VendorId::new([1, 2, 3, 4]);

type PN = &'static str;
type VN = &'static str;
type EntryType = jbk::creator::BasicEntry<PN, VN>;
type CEntryStore = jbk::creator::EntryStore<PN, VN, EntryType>;

static QUIET: Once = Once::new();

/// Panics of the library are caught and counted as "loud failure": do not print them.
fn quiet_panics() {
    QUIET.call_once(|| {
        let default = std::panic::take_hook();
        std::panic::set_hook(Box::new(move |info| {
            let in_lib = info
                .location()
                .map(|l| !l.file().contains("hunt_c05h"))
                .unwrap_or(true);
            if !in_lib {
                default(info);
            }
        }));
    });
}

// ---------------------------------------------------------------------------------------------
// Creation
// ---------------------------------------------------------------------------------------------

#[derive(Clone, Copy, PartialEq, Debug)]
enum StoreKind {
    Plain,
    Indexed,
}

#[derive(Clone)]
struct Spec {
    concat: jbk::creator::ConcatMode,
    compression: jbk::creator::Compression,
    store_kind: StoreKind,
    /// Number of bytes of an array kept in the entry.
    fixed_array_len: usize,
    variants: bool,
    /// number of entries
    entries: usize,
    /// size of each content (index i uses sizes[i % len])
    content_sizes: Vec<usize>,
    /// length of the strings put in the value store
    string_len: usize,
    /// All entries get the same integer (the column becomes a default value of the layout).
    constant_int: bool,
    /// Adds a second index pointing on a sub range.
    second_index: bool,
    /// Adds a second (extra) content pack, in its own file.
    extra_pack: bool,
}

impl Default for Spec {
    fn default() -> Self {
        Self {
            concat: jbk::creator::ConcatMode::OneFile,
            compression: jbk::creator::Compression::None,
            store_kind: StoreKind::Plain,
            fixed_array_len: 0,
            variants: false,
            entries: 3,
            content_sizes: vec![5, 0, 17],
            string_len: 6,
            constant_int: false,
            second_index: false,
            extra_pack: false,
        }
    }
}

struct Stores {
    value_store: jbk::creator::StoreHandle,
    entry_store: Box<CEntryStore>,
    count: u32,
    second_index: bool,
}

impl EntryStoreTrait for Stores {
    fn finalize(self: Box<Self>, directory_pack: &mut jbk::creator::DirectoryPackCreator) {
        directory_pack.add_value_store(self.value_store);
        let entry_store_id = directory_pack.add_entry_store(self.entry_store);
        directory_pack.create_index(
            "main",
            Default::default(),
            0.into(),
            entry_store_id,
            self.count.into(),
            jbk::EntryIdx::from(0).into(),
        );
        if self.second_index {
            directory_pack.create_index(
                "second",
                Default::default(),
                0.into(),
                entry_store_id,
                (self.count - 1).into(),
                jbk::EntryIdx::from(1).into(),
            );
        }
    }
}

fn content_bytes(i: usize, size: usize) -> Vec<u8> {
    (0..size)
        .map(|j| (((i * 31 + j * 7) % 251) as u8) ^ 0x5a)
        .collect()
}

fn string_bytes(i: usize, len: usize) -> Vec<u8> {
    (0..len).map(|j| b'a' + ((i * 3 + j) % 26) as u8).collect()
}

/// Create the container described by `spec` in `dir`. Returns the path of the main file.
fn build(dir: &Path, spec: &Spec) -> PathBuf {
    let main = dir.join("hunt.jbk");
    let main_utf8 = jbk::Utf8PathBuf::from_path_buf(main.clone()).unwrap();
    let mut creator = jbk::creator::BasicCreator::new(
        &main_utf8,
        spec.concat,
        VENDOR_ID,
        spec.compression,
        Arc::new(()),
    )
    .unwrap();

    let value_store = match spec.store_kind {
        StoreKind::Plain => jbk::creator::ValueStore::new_plain(None),
        StoreKind::Indexed => jbk::creator::ValueStore::new_indexed(),
    };

    let common = schema::CommonProperties::new(vec![
        schema::Property::new_array(spec.fixed_array_len, value_store.clone(), "name"),
        schema::Property::new_uint("number"),
        schema::Property::new_sint("signed"),
    ]);
    let variants = if spec.variants {
        vec![
            (
                "file",
                schema::VariantProperties::new(vec![
                    schema::Property::new_content_address("content"),
                    schema::Property::new_uint("mtime"),
                ]),
            ),
            (
                "link",
                schema::VariantProperties::new(vec![schema::Property::new_array(
                    1,
                    value_store.clone(),
                    "target",
                )]),
            ),
        ]
    } else {
        vec![]
    };
    let common = if spec.variants {
        common
    } else {
        schema::CommonProperties::new(vec![
            schema::Property::new_array(spec.fixed_array_len, value_store.clone(), "name"),
            schema::Property::new_uint("number"),
            schema::Property::new_sint("signed"),
            schema::Property::new_content_address("content"),
        ])
    };
    let schema = schema::Schema::new(common, variants, None);
    let mut entry_store = Box::new(jbk::creator::EntryStore::new(schema, None));

    let mut extra = if spec.extra_pack {
        let extra_path = jbk::Utf8PathBuf::from_path_buf(dir.join("extra.jbkc")).unwrap();
        let file: Box<dyn jbk::creator::PackRecipient> =
            jbk::creator::AtomicOutFile::new(&extra_path).unwrap();
        Some(
            jbk::creator::ContentPackCreator::<dyn jbk::creator::PackRecipient>::new_from_output(
                file,
                jbk::PackId::from(2),
                VENDOR_ID,
                Default::default(),
                spec.compression,
            )
            .unwrap(),
        )
    } else {
        None
    };

    for i in 0..spec.entries {
        let size = spec.content_sizes[i % spec.content_sizes.len()];
        let content = content_bytes(i, size);
        let reader = Box::new(std::io::Cursor::new(content));
        let address = if extra.is_some() && i % 2 == 1 {
            extra
                .as_mut()
                .unwrap()
                .add_content(reader, Default::default())
                .unwrap()
        } else {
            creator.add_content(reader, Default::default()).unwrap()
        };
        let number = if spec.constant_int {
            77
        } else {
            (i as u64) * 300 + 1
        };
        let mut values = HashMap::from([
            (
                "name",
                jbk::Value::Array(string_bytes(i, spec.string_len).into()),
            ),
            ("number", jbk::Value::Unsigned(number)),
            ("signed", jbk::Value::Signed(-(i as i64) * 200 + 3)),
        ]);
        let variant = if spec.variants {
            if i % 2 == 0 {
                values.insert("content", jbk::Value::Content(address));
                values.insert("mtime", jbk::Value::Unsigned(1_000_000 + i as u64));
                Some("file")
            } else {
                values.insert(
                    "target",
                    jbk::Value::Array(string_bytes(i + 100, spec.string_len + 2).into()),
                );
                Some("link")
            }
        } else {
            values.insert("content", jbk::Value::Content(address));
            None
        };
        let entry = EntryType::new_from_schema(&entry_store.schema, variant, values);
        entry_store.add_entry(entry);
    }

    let stores = Box::new(Stores {
        value_store,
        entry_store,
        count: spec.entries as u32,
        second_index: spec.second_index,
    });
    let extras: Vec<jbk::creator::ContentPackCreator<dyn jbk::creator::PackRecipient>> =
        match extra {
            None => vec![],
            Some(e) => vec![e],
        };
    creator.finalize(stores, extras).unwrap();
    main
}

// ---------------------------------------------------------------------------------------------
// Reading
// ---------------------------------------------------------------------------------------------

#[derive(PartialEq, Eq, Clone, Debug)]
struct Dump {
    structure: String,
    contents: Vec<(String, Vec<u8>)>,
}

fn read_region(region: &jbk::reader::ByteRegion) -> Result<Vec<u8>, String> {
    let mut v = Vec::new();
    region
        .stream()
        .read_to_end(&mut v)
        .map_err(|e| format!("read: {e}"))?;
    Ok(v)
}

fn sorted_props<'a, P: std::fmt::Debug + 'a>(
    props: impl Iterator<Item = (&'a jbk::SmallString, &'a P)>,
) -> Vec<(String, String)> {
    let mut v: Vec<_> = props
        .map(|(n, p)| (n.as_str().to_string(), format!("{p:?}")))
        .collect();
    v.sort();
    v
}

fn dump_inner(main: &Path, index_names: &[&str]) -> Result<Dump, String> {
    let e = |e: jbk::Error| format!("{e}");
    let mut s = String::new();
    let mut contents = Vec::new();

    // The manifest, as seen with the tools
    {
        let container_pack = jbk::tools::open_pack(main).map_err(e)?;
        writeln!(s, "container pack count {:?}", container_pack.pack_count()).unwrap();
        let mut uuids: Vec<_> = container_pack.iter().map(|(u, _r)| *u).collect();
        uuids.sort();
        writeln!(s, "container packs {uuids:?}").unwrap();
        let manifest_reader = container_pack
            .get_manifest_pack_reader()
            .map_err(e)?
            .ok_or("no manifest")?;
        let manifest = jbk::reader::ManifestPack::new(manifest_reader).map_err(e)?;
        writeln!(
            s,
            "manifest uuid {} kind {:?} vendor {:?} version {:?} size {:?} count {:?} max {} free {:?}",
            manifest.uuid(),
            manifest.kind(),
            manifest.app_vendor_id(),
            manifest.version(),
            manifest.size(),
            manifest.pack_count(),
            manifest.max_id(),
            manifest.get_free_data(),
        )
        .unwrap();
        writeln!(s, "dir info {:?}", manifest.get_directory_pack_info()).unwrap();
        for info in manifest.get_pack_infos() {
            writeln!(s, "pack info {info:?}").unwrap();
            // NB: `manifest.get_pack_check_info(uuid)` is not dumped: it fails on every pristine
            // container (the creator records the size of the check info *with* its CRC and the
            // reader adds the CRC again). It is loud, so out of the scope of C05.
            writeln!(
                s,
                "  free data {:?}",
                manifest.get_pack_free_data(info.pack_id).map_err(e)?
            )
            .unwrap();
        }
    }

    let container = jbk::reader::Container::new(main).map_err(e)?;
    writeln!(
        s,
        "container uuid {} pack_count {:?}",
        container.uuid(),
        container.pack_count()
    )
    .unwrap();
    let dir = container.get_directory_pack();
    writeln!(
        s,
        "dir uuid {} kind {:?} vendor {:?} version {:?} size {:?} free {:?}",
        dir.uuid(),
        dir.kind(),
        dir.app_vendor_id(),
        dir.version(),
        dir.size(),
        dir.get_free_data()
    )
    .unwrap();

    // Every pack and every content in it.
    for pack_id in 0..4u16 {
        match container.get_pack(jbk::PackId::from(pack_id)).map_err(e)? {
            None => writeln!(s, "pack {pack_id}: none").unwrap(),
            Some(jbk::reader::MayMissPack::MISSING(info)) => {
                writeln!(s, "pack {pack_id}: MISSING {info:?}").unwrap()
            }
            Some(jbk::reader::MayMissPack::FOUND(pack)) => {
                let count = pack.get_content_count();
                writeln!(
                    s,
                    "pack {pack_id}: uuid {} kind {:?} vendor {:?} version {:?} size {:?} contents {:?} free {:?}",
                    pack.uuid(),
                    pack.kind(),
                    pack.app_vendor_id(),
                    pack.version(),
                    pack.size(),
                    count,
                    pack.get_free_data()
                )
                .unwrap();
                let n: u32 = format!("{count:?}")
                    .chars()
                    .filter(|c| c.is_ascii_digit())
                    .collect::<String>()
                    .parse()
                    .unwrap_or(0);
                // one past the end: must be None
                for c in 0..=n {
                    match pack.get_content(jbk::ContentIdx::from(c)).map_err(e)? {
                        None => writeln!(s, "  content {c}: none").unwrap(),
                        Some(region) => {
                            writeln!(s, "  content {c}: size {:?}", region.size()).unwrap();
                            contents.push((format!("{pack_id}/{c}"), read_region(&region)?));
                        }
                    }
                }
            }
        }
    }

    // Indexes and entries
    for name in index_names {
        let index = match container.get_index_for_name(name).map_err(e)? {
            None => {
                writeln!(s, "index {name}: none").unwrap();
                continue;
            }
            Some(i) => i,
        };
        writeln!(
            s,
            "index {name}: store {:?} count {:?} offset {:?}",
            index.get_store_id(),
            index.count(),
            index.offset()
        )
        .unwrap();
        let store = index.get_store(container.get_entry_storage()).map_err(e)?;
        let layout = store.layout();
        writeln!(s, " common {:?}", sorted_props(layout.common.iter())).unwrap();
        let mut prop_names: Vec<String> = layout
            .common
            .iter()
            .map(|(n, _)| n.as_str().to_string())
            .collect();
        if let Some(vp) = &layout.variant_part {
            let mut names: Vec<_> = vp.names.iter().map(|(n, i)| (*i, n.as_str())).collect();
            names.sort();
            writeln!(s, " variant id offset {:?} names {names:?}", vp.variant_id_offset).unwrap();
            for (i, v) in vp.variants.iter().enumerate() {
                writeln!(s, " variant {i} {:?}", sorted_props(v.iter())).unwrap();
                for (n, _) in v.iter() {
                    prop_names.push(n.as_str().to_string());
                }
            }
        }
        prop_names.sort();
        prop_names.dedup();
        let builder = AnyBuilder::new(store, container.get_value_storage().as_ref()).map_err(e)?;
        let count: u32 = format!("{:?}", index.count())
            .chars()
            .filter(|c| c.is_ascii_digit())
            .collect::<String>()
            .parse()
            .unwrap_or(0);
        for i in 0..=count {
            let entry = match index
                .get_entry(&builder, jbk::EntryIdx::from(i))
                .map_err(e)?
            {
                None => {
                    writeln!(s, "  entry {i}: none").unwrap();
                    continue;
                }
                Some(entry) => entry,
            };
            writeln!(s, "  entry {i}: variant {:?}", entry.get_variant_id().map_err(e)?).unwrap();
            for n in &prop_names {
                match entry.get_value(n).map_err(e)? {
                    None => {}
                    Some(raw) => {
                        let value = raw.get().map_err(e)?;
                        writeln!(s, "    {n} = {value:?}").unwrap();
                        if let jbk::Value::Content(address) = value {
                            match container.get_bytes(address).map_err(e)? {
                                None => writeln!(s, "      -> no pack").unwrap(),
                                Some(jbk::reader::MayMissPack::MISSING(info)) => {
                                    writeln!(s, "      -> missing {info:?}").unwrap()
                                }
                                Some(jbk::reader::MayMissPack::FOUND(None)) => {
                                    writeln!(s, "      -> no content").unwrap()
                                }
                                Some(jbk::reader::MayMissPack::FOUND(Some(region))) => {
                                    writeln!(s, "      -> size {:?}", region.size()).unwrap();
                                    contents
                                        .push((format!("{name}/{i}/{n}"), read_region(&region)?));
                                }
                            }
                        }
                    }
                }
            }
        }
    }
    Ok(Dump {
        structure: s,
        contents,
    })
}

fn dump(main: &Path, index_names: &[&str]) -> Result<Dump, String> {
    match catch_unwind(AssertUnwindSafe(|| dump_inner(main, index_names))) {
        Ok(r) => r,
        Err(p) => {
            let msg = p
                .downcast_ref::<String>()
                .cloned()
                .or_else(|| p.downcast_ref::<&str>().map(|s| s.to_string()))
                .unwrap_or_default();
            Err(format!("PANIC {msg}"))
        }
    }
}

fn check(main: &Path) -> Result<bool, String> {
    match catch_unwind(AssertUnwindSafe(|| {
        let container = jbk::reader::Container::new(main).map_err(|e| format!("{e}"))?;
        container.check().map_err(|e| format!("{e}"))
    })) {
        Ok(r) => r,
        Err(_) => Err("PANIC".to_string()),
    }
}

// ---------------------------------------------------------------------------------------------
// Alteration
// ---------------------------------------------------------------------------------------------

#[derive(Default, Debug)]
struct Stats {
    tried: usize,
    errors: usize,
    panics: usize,
    same: usize,
    content_changed_check_failed: usize,
    /// offsets where nothing at all was noticed (printed as ranges)
    unnoticed: Vec<(String, usize)>,
}

fn ranges(v: &[(String, usize)]) -> String {
    let mut out = String::new();
    let mut i = 0;
    while i < v.len() {
        let mut j = i;
        while j + 1 < v.len() && v[j + 1].0 == v[i].0 && v[j + 1].1 <= v[j].1 + 1 {
            j += 1;
        }
        out += &format!("{}:{}..={} ", v[i].0, v[i].1, v[j].1);
        i = j + 1;
    }
    out
}

/// Judge one altered container against the baseline. Returns a description of the violation.
fn judge(
    main: &Path,
    index_names: &[&str],
    baseline: &Dump,
    stats: &mut Stats,
    place: (&Path, usize),
) -> Option<String> {
    stats.tried += 1;
    match dump(main, index_names) {
        Err(e) => {
            if e.starts_with("PANIC") {
                stats.panics += 1;
            } else {
                stats.errors += 1;
            }
            None
        }
        Ok(d) => {
            if d.structure != baseline.structure {
                let diff = baseline
                    .structure
                    .lines()
                    .zip(d.structure.lines())
                    .find(|(a, b)| a != b)
                    .map(|(a, b)| format!("expected `{a}` got `{b}`"))
                    .unwrap_or_else(|| "different number of lines".to_string());
                return Some(format!("structure silently changed: {diff}"));
            }
            if d.contents != baseline.contents {
                match check(main) {
                    Ok(true) => {
                        return Some(
                            "content bytes changed and the integrity check passes".to_string(),
                        )
                    }
                    _ => stats.content_changed_check_failed += 1,
                }
            } else {
                stats.same += 1;
                stats.unnoticed.push((
                    place.0.file_name().unwrap().to_string_lossy().to_string(),
                    place.1,
                ));
            }
            None
        }
    }
}

fn files_of(dir: &Path) -> Vec<PathBuf> {
    let mut v: Vec<_> = std::fs::read_dir(dir)
        .unwrap()
        .map(|e| e.unwrap().path())
        .filter(|p| p.is_file())
        .collect();
    v.sort();
    v
}

/// XOR every byte of every file of the container with each mask.
/// `skip` tells which (file, offset) must not be touched (known problems).
fn exhaustive_flips(
    spec: &Spec,
    masks: &[u8],
    index_names: &[&str],
    step: usize,
    skip: &dyn Fn(&Path, &[u8], usize) -> bool,
) -> (Vec<String>, Stats) {
    quiet_panics();
    let dir = tempfile::tempdir().unwrap();
    let main = build(dir.path(), spec);
    let baseline = dump(&main, index_names).expect("the pristine container must be readable");
    assert_eq!(check(&main), Ok(true), "pristine container must check");
    assert!(
        !baseline.contents.is_empty(),
        "baseline should have read some content"
    );
    let mut violations = Vec::new();
    let mut stats = Stats::default();
    for file in files_of(dir.path()) {
        let pristine = std::fs::read(&file).unwrap();
        let mut offset = 0;
        while offset < pristine.len() {
            if skip(&file, &pristine, offset) {
                offset += step;
                continue;
            }
            for mask in masks {
                let mut altered = pristine.clone();
                altered[offset] ^= mask;
                std::fs::write(&file, &altered).unwrap();
                if let Some(v) = judge(&main, index_names, &baseline, &mut stats, (&file, offset)) {
                    if violations.len() < 20 {
                        violations.push(format!(
                            "{} offset {offset} (0x{offset:x}) mask 0x{mask:02x}: {v}",
                            file.file_name().unwrap().to_string_lossy()
                        ));
                    }
                }
            }
            offset += step;
        }
        std::fs::write(&file, &pristine).unwrap();
    }
    assert_eq!(
        dump(&main, index_names).as_ref(),
        Ok(&baseline),
        "restored container reads as the baseline"
    );
    (violations, stats)
}

fn no_skip(_: &Path, _: &[u8], _: usize) -> bool {
    false
}

fn report(name: &str, violations: Vec<String>, stats: Stats) {
    println!(
        "{name}: tried {} errors {} panics {} same {} content_changed_check_failed {}",
        stats.tried, stats.errors, stats.panics, stats.same, stats.content_changed_check_failed
    );
    if std::env::var("HUNT_VERBOSE").is_ok() {
        println!("{name}: unnoticed at {}", ranges(&stats.unnoticed));
    }
    assert!(
        violations.is_empty(),
        "{name}: {} silent alterations, first ones:\n{}",
        violations.len(),
        violations.join("\n")
    );
}

// ---------------------------------------------------------------------------------------------
// H1: baseline configuration, one file, every byte, several masks
// ---------------------------------------------------------------------------------------------
#[test]
fn h01_one_file_plain_store_every_byte() {
    let spec = Spec::default();
    let (v, s) = exhaustive_flips(&spec, &[0x01, 0x80, 0xff], &["main"], 1, &no_skip);
    report("h01", v, s);
}

// ---------------------------------------------------------------------------------------------
// Helpers to locate the data of compressed clusters (a damaged byte there is a KNOWN problem:
// the decoder thread unwraps the error; those bytes are not touched by the tests).
// ---------------------------------------------------------------------------------------------
fn le(bytes: &[u8]) -> u64 {
    let mut v = 0u64;
    for (i, b) in bytes.iter().enumerate() {
        v |= (*b as u64) << (8 * i);
    }
    v
}

/// (start, end, compressed) of the raw data of each cluster of each content pack found in `bytes`
fn cluster_regions(bytes: &[u8]) -> Vec<(usize, usize, bool)> {
    let mut out = Vec::new();
    let mut p = 0;
    while p + 128 <= bytes.len() {
        if &bytes[p..p + 4] == b"jbkc" && bytes[p + 8] == 0 && bytes[p + 9] == 2 {
            let h = p + 64;
            let cluster_ptr_pos = le(&bytes[h + 8..h + 16]) as usize;
            let cluster_count = le(&bytes[h + 20..h + 24]) as usize;
            for c in 0..cluster_count {
                let a = p + cluster_ptr_pos + 8 * c;
                if a + 8 > bytes.len() {
                    break;
                }
                let so = le(&bytes[a..a + 8]);
                let tail = p + (so >> 16) as usize;
                if tail + 4 > bytes.len() {
                    break;
                }
                let compression = bytes[tail];
                let offset_size = bytes[tail + 1] as usize;
                let raw = le(&bytes[tail + 4..tail + 4 + offset_size]) as usize;
                out.push((tail - raw, tail, compression != 0));
            }
        }
        p += 1;
    }
    out
}

fn skip_compressed(_: &Path, bytes: &[u8], offset: usize) -> bool {
    cluster_regions(bytes)
        .iter()
        .any(|(s, e, c)| *c && offset >= *s && offset < *e)
}

// ---------------------------------------------------------------------------------------------
// H2: two files, indexed value store (arrays are deported with an indirect key), variants
// ---------------------------------------------------------------------------------------------
#[test]
fn h02_two_files_indexed_store_variants() {
    let spec = Spec {
        concat: jbk::creator::ConcatMode::TwoFiles,
        store_kind: StoreKind::Indexed,
        variants: true,
        entries: 5,
        ..Default::default()
    };
    let (v, s) = exhaustive_flips(&spec, &[0x01, 0x10, 0xff], &["main"], 1, &no_skip);
    report("h02", v, s);
}

// ---------------------------------------------------------------------------------------------
// H3: every pack in its own file, an extra content pack, two indexes, a constant column
//     (stored as a default value in the layout), arrays partly stored in the entry
// ---------------------------------------------------------------------------------------------
#[test]
fn h03_no_concat_extra_pack_two_indexes_constant_column() {
    let spec = Spec {
        concat: jbk::creator::ConcatMode::NoConcat,
        store_kind: StoreKind::Plain,
        fixed_array_len: 2,
        entries: 4,
        constant_int: true,
        second_index: true,
        extra_pack: true,
        ..Default::default()
    };
    let (v, s) = exhaustive_flips(&spec, &[0x01, 0x80], &["main", "second"], 1, &no_skip);
    report("h03", v, s);
}

// ---------------------------------------------------------------------------------------------
// H4: zstd compressed clusters (everything but the compressed streams themselves)
// ---------------------------------------------------------------------------------------------
#[test]
fn h04_zstd_everything_but_compressed_streams() {
    let spec = Spec {
        compression: jbk::creator::Compression::zstd(),
        variants: true,
        entries: 6,
        content_sizes: vec![300, 0, 1, 1000],
        ..Default::default()
    };
    // be sure that the helper sees compressed clusters
    {
        let dir = tempfile::tempdir().unwrap();
        let main = build(dir.path(), &spec);
        let bytes = std::fs::read(main).unwrap();
        let regions = cluster_regions(&bytes);
        assert!(regions.iter().any(|r| r.2), "no compressed cluster: {regions:?}");
    }
    let (v, s) = exhaustive_flips(&spec, &[0x01, 0xff], &["main"], 1, &skip_compressed);
    report("h04", v, s);
}

// ---------------------------------------------------------------------------------------------
// Generic multi-byte alteration driver: `alter(pristine, offset)` gives the altered bytes
// (or None to skip), for `offset` in 0, stride, 2*stride...
// ---------------------------------------------------------------------------------------------
fn sampled_alterations(
    spec: &Spec,
    index_names: &[&str],
    stride: usize,
    what: &str,
    alter: &dyn Fn(&[u8], usize) -> Option<Vec<u8>>,
) -> (Vec<String>, Stats) {
    quiet_panics();
    let dir = tempfile::tempdir().unwrap();
    let main = build(dir.path(), spec);
    let baseline = dump(&main, index_names).expect("the pristine container must be readable");
    assert_eq!(check(&main), Ok(true), "pristine container must check");
    let mut violations = Vec::new();
    let mut stats = Stats::default();
    for file in files_of(dir.path()) {
        let pristine = std::fs::read(&file).unwrap();
        let mut offset = 0;
        while offset < pristine.len() {
            if let Some(altered) = alter(&pristine, offset) {
                if altered != pristine {
                    std::fs::write(&file, &altered).unwrap();
                    if let Some(v) =
                        judge(&main, index_names, &baseline, &mut stats, (&file, offset))
                    {
                        if violations.len() < 20 {
                            violations.push(format!(
                                "{} offset {offset} (0x{offset:x}) {what}: {v}",
                                file.file_name().unwrap().to_string_lossy()
                            ));
                        }
                    }
                }
            }
            offset += stride;
        }
        std::fs::write(&file, &pristine).unwrap();
    }
    (violations, stats)
}

/// xorshift, deterministic
fn prng(seed: &mut u64) -> u64 {
    *seed ^= *seed << 13;
    *seed ^= *seed >> 7;
    *seed ^= *seed << 17;
    *seed
}

// ---------------------------------------------------------------------------------------------
// H5: big blocks. Entry store, value store, content info table and the directory pack itself are
//     larger than 4 KiB (they are mapped instead of being copied), the value store is > 64 KiB.
//     Flips sampled everywhere + every byte of the last 3000 bytes of each file (tails, tables).
// ---------------------------------------------------------------------------------------------
fn big_spec() -> Spec {
    Spec {
        concat: jbk::creator::ConcatMode::TwoFiles,
        store_kind: StoreKind::Indexed,
        variants: true,
        entries: 1300,
        content_sizes: vec![3, 0, 1, 7],
        string_len: 60,
        ..Default::default()
    }
}

#[test]
fn h05_big_blocks_mapped_stores() {
    let spec = big_spec();
    let (mut v, s) = sampled_alterations(&spec, &["main"], 211, "flip 0x04", &|p, o| {
        if skip_compressed(Path::new(""), p, o) {
            return None;
        }
        let mut a = p.to_vec();
        a[o] ^= 0x04;
        Some(a)
    });
    println!("h05 sampled: tried {} errors {} same {}", s.tried, s.errors, s.same);
    let (v2, s2) = sampled_alterations(&spec, &["main"], 7, "flip 0x80 (end of file)", &|p, o| {
        if o + 3000 < p.len() {
            return None;
        }
        let mut a = p.to_vec();
        a[o] ^= 0x80;
        Some(a)
    });
    v.extend(v2);
    report("h05", v, s2);
}

// ---------------------------------------------------------------------------------------------
// H6: zeroed ranges of many lengths
// ---------------------------------------------------------------------------------------------
#[test]
fn h06_zeroed_ranges() {
    let spec = Spec {
        variants: true,
        entries: 5,
        second_index: true,
        ..Default::default()
    };
    let mut all = Vec::new();
    for len in [2usize, 3, 4, 5, 8, 16, 37, 64, 68, 128, 260, 512, 1024] {
        let (v, s) =
            sampled_alterations(&spec, &["main", "second"], 3, &format!("zero {len}"), &|p, o| {
                let mut a = p.to_vec();
                let e = std::cmp::min(o + len, a.len());
                a[o..e].fill(0);
                Some(a)
            });
        println!("h06 len {len}: tried {} errors {} panics {} same {}", s.tried, s.errors, s.panics, s.same);
        all.extend(v);
    }
    report("h06", all, Stats::default());
}

// ---------------------------------------------------------------------------------------------
// H7: overwritten ranges: 0xFF, pseudo random bytes, and a copy of another part of the same
//     file (misdirected write)
// ---------------------------------------------------------------------------------------------
#[test]
fn h07_overwritten_ranges() {
    let spec = Spec {
        store_kind: StoreKind::Indexed,
        entries: 6,
        ..Default::default()
    };
    let mut all = Vec::new();
    for len in [2usize, 4, 5, 8, 33, 64, 300] {
        let (v, s) = sampled_alterations(&spec, &["main"], 5, &format!("0xff x {len}"), &|p, o| {
            let mut a = p.to_vec();
            let e = std::cmp::min(o + len, a.len());
            a[o..e].fill(0xff);
            Some(a)
        });
        println!("h07 ff {len}: tried {} errors {} same {}", s.tried, s.errors, s.same);
        all.extend(v);
        let (v, s) = sampled_alterations(&spec, &["main"], 5, &format!("random x {len}"), &|p, o| {
            let mut a = p.to_vec();
            let e = std::cmp::min(o + len, a.len());
            let mut seed = 0x9E3779B97F4A7C15u64 ^ ((o as u64) << 20) ^ len as u64;
            for b in &mut a[o..e] {
                *b = prng(&mut seed) as u8;
            }
            Some(a)
        });
        println!("h07 random {len}: tried {} errors {} same {}", s.tried, s.errors, s.same);
        all.extend(v);
        // misdirected write: the bytes that belong `shift` bytes further land here
        for shift in [1usize, 4, 64, 512] {
            let (v, s) = sampled_alterations(
                &spec,
                &["main"],
                11,
                &format!("copy of +{shift} x {len}"),
                &|p, o| {
                    if o + shift + len > p.len() {
                        return None;
                    }
                    let mut a = p.to_vec();
                    a.copy_within(o + shift..o + shift + len, o);
                    Some(a)
                },
            );
            println!("h07 copy shift {shift} len {len}: tried {} errors {} same {}", s.tried, s.errors, s.same);
            all.extend(v);
        }
    }
    report("h07", all, Stats::default());
}

// ---------------------------------------------------------------------------------------------
// H8: truncated and extended files (every length for the small container)
// ---------------------------------------------------------------------------------------------
#[test]
fn h08_truncated_and_extended_files() {
    let spec = Spec {
        concat: jbk::creator::ConcatMode::NoConcat,
        extra_pack: true,
        entries: 4,
        ..Default::default()
    };
    let (mut v, s) = sampled_alterations(&spec, &["main"], 1, "truncated at", &|p, o| {
        Some(p[..o].to_vec())
    });
    println!("h08 truncation: tried {} errors {} panics {} same {}", s.tried, s.errors, s.panics, s.same);
    let (v2, s2) = sampled_alterations(&spec, &["main"], 100_000, "extended", &|p, _| {
        let mut a = p.to_vec();
        a.extend_from_slice(&[0u8; 77]);
        Some(a)
    });
    v.extend(v2);
    // extension with a copy of its own end (a second tail header)
    let (v3, _) = sampled_alterations(&spec, &["main"], 100_000, "extended with own tail", &|p, _| {
        let mut a = p.to_vec();
        a.extend_from_slice(&p[p.len() - 64..]);
        Some(a)
    });
    v.extend(v3);
    report("h08", v, s2);
}

// ---------------------------------------------------------------------------------------------
// H9: degenerate containers: no entry and no content at all / one entry with an empty content
// ---------------------------------------------------------------------------------------------
#[test]
fn h09_empty_and_single_entry_containers() {
    quiet_panics();
    // `second_index` needs 1 entry at least, `main` is enough here.
    for entries in [0usize, 1] {
        let spec = Spec {
            entries,
            content_sizes: vec![0],
            string_len: 0,
            ..Default::default()
        };
        let dir = tempfile::tempdir().unwrap();
        let main = build(dir.path(), &spec);
        let baseline = dump(&main, &["main"]).expect("readable");
        assert_eq!(check(&main), Ok(true));
        let mut violations = vec![];
        let mut stats = Stats::default();
        let pristine = std::fs::read(&main).unwrap();
        for offset in 0..pristine.len() {
            for mask in [0x01u8, 0xff] {
                let mut a = pristine.clone();
                a[offset] ^= mask;
                std::fs::write(&main, &a).unwrap();
                if let Some(v) = judge(&main, &["main"], &baseline, &mut stats, (&main, offset)) {
                    violations.push(format!("entries={entries} offset {offset} mask {mask:02x}: {v}"));
                }
            }
        }
        report(&format!("h09 entries={entries}"), violations, stats);
    }
}

// ---------------------------------------------------------------------------------------------
// H10 / H11: a bare content pack read through `ContentPack::new` with a file reader and with an
// in-memory reader; the table of content infos is 4 bytes short of / exactly at / over the 4 KiB
// limit where `FileSource::cut` switches from a copy to a mapping.
// ---------------------------------------------------------------------------------------------
fn build_bare_content_pack(path: &Path, count: usize) {
    build_bare_content_pack_with(path, count, &|i| 1 + i % 3)
}

fn build_bare_content_pack_with(path: &Path, count: usize, size: &dyn Fn(usize) -> usize) {
    let path = jbk::Utf8PathBuf::from_path_buf(path.to_path_buf()).unwrap();
    let mut creator = jbk::creator::ContentPackCreator::new(
        &path,
        jbk::PackId::from(1),
        VENDOR_ID,
        Default::default(),
        jbk::creator::Compression::None,
    )
    .unwrap();
    for i in 0..count {
        let content = content_bytes(i, size(i));
        creator
            .add_content(Box::new(std::io::Cursor::new(content)), Default::default())
            .unwrap();
    }
    creator.finalize().unwrap();
}

fn dump_content_pack(reader: jbk::Reader) -> Result<(String, Vec<Vec<u8>>, bool), String> {
    let r = catch_unwind(AssertUnwindSafe(|| {
        let e = |e: jbk::Error| format!("{e}");
        let pack = jbk::reader::ContentPack::new(reader).map_err(e)?;
        let mut s = String::new();
        let mut contents = vec![];
        let count = pack.get_content_count();
        writeln!(s, "{} {:?} {:?} {:?}", pack.uuid(), pack.kind(), pack.size(), count).unwrap();
        let n: u32 = format!("{count:?}")
            .chars()
            .filter(|c| c.is_ascii_digit())
            .collect::<String>()
            .parse()
            .unwrap();
        for c in 0..=n {
            match pack.get_content(jbk::ContentIdx::from(c)).map_err(e)? {
                None => writeln!(s, "{c} none").unwrap(),
                Some(region) => {
                    writeln!(s, "{c} {:?}", region.size()).unwrap();
                    contents.push(read_region(&region)?);
                }
            }
        }
        let check = pack.check().map_err(e)?;
        Ok::<_, String>((s, contents, check))
    }));
    match r {
        Ok(r) => r,
        Err(_) => Err("PANIC".to_string()),
    }
}

#[test]
fn h10_h11_bare_content_pack_file_and_memory_readers_around_4k() {
    quiet_panics();
    let dir = tempfile::tempdir().unwrap();
    for count in [1, 1021usize, 1022, 1023, 1024] {
        let path = dir.path().join(format!("bare{count}.jbkc"));
        build_bare_content_pack(&path, count);
        let pristine = std::fs::read(&path).unwrap();
        let file_reader = |p: &Path| -> jbk::Reader { jbk::FileSource::open(p).unwrap().into() };
        let baseline = dump_content_pack(file_reader(&path)).expect("pristine readable");
        assert!(baseline.2, "pristine checks");
        assert_eq!(
            dump_content_pack(jbk::Reader::from(pristine.clone())).as_ref(),
            Ok(&baseline),
            "memory reader gives the same as the file reader"
        );
        // where is the table of content infos? (content_ptr_pos is the first field of the header)
        let table = le(&pristine[64..72]) as usize;
        let table_end = table + 4 * count + 4;
        let mut offsets: Vec<usize> = (0..pristine.len()).step_by(if count == 1 { 1 } else { 97 }).collect();
        offsets.extend(table..std::cmp::min(table + 12, pristine.len()));
        offsets.extend(table_end - 12..std::cmp::min(table_end + 4, pristine.len()));
        let mut violations = vec![];
        let mut same = 0;
        let mut errors = 0;
        for offset in offsets {
            for mask in [0x01u8, 0x80] {
                let mut a = pristine.clone();
                a[offset] ^= mask;
                std::fs::write(&path, &a).unwrap();
                for (kind, got) in [
                    ("file", dump_content_pack(file_reader(&path))),
                    ("memory", dump_content_pack(jbk::Reader::from(a.clone()))),
                ] {
                    match got {
                        Err(_) => errors += 1,
                        Ok(got) => {
                            if got.0 != baseline.0 {
                                violations.push(format!(
                                    "count {count} {kind} offset {offset}: structure changed"
                                ));
                            } else if got.1 != baseline.1 && got.2 {
                                violations.push(format!(
                                    "count {count} {kind} offset {offset}: content changed, check ok"
                                ));
                            } else if got.1 != baseline.1 {
                                errors += 1
                            } else {
                                same += 1
                            }
                        }
                    }
                }
            }
        }
        std::fs::write(&path, &pristine).unwrap();
        println!("h10/h11 count {count}: errors {errors} same {same}");
        assert!(violations.is_empty(), "{}", violations.join("\n"));
    }
}

// ---------------------------------------------------------------------------------------------
// H12 (sequence of calls): the bytes are altered AFTER the container has been opened and the
// stores loaded (CRC verified at load time). Blocks smaller than 4 KiB are copied in memory, so
// they are immune; bigger blocks (and any directory pack bigger than 4 KiB) are shared
// mappings of the file and are read again, without any verification, at every access.
//
// The library cannot do much against a file modified under its feet except copying; whether C05
// is meant to cover this is debatable, so the test is `#[ignore]`d: run it with `--ignored`.
// ---------------------------------------------------------------------------------------------
#[test]
#[ignore = "alteration while the container is open: debatable scope, documented only"]
fn h12_alteration_after_open_big_mapped_store() {
    use std::io::{Seek, SeekFrom, Write};
    quiet_panics();
    let spec = big_spec();
    let dir = tempfile::tempdir().unwrap();
    let main = build(dir.path(), &spec);
    let container = jbk::reader::Container::new(&main).unwrap();
    let index = container.get_index_for_name("main").unwrap().unwrap();
    let store = index.get_store(container.get_entry_storage()).unwrap();
    let builder = AnyBuilder::new(store, container.get_value_storage().as_ref()).unwrap();
    let read_all = |builder: &AnyBuilder| -> Result<Vec<String>, String> {
        let mut v = vec![];
        for i in 0..spec.entries as u32 {
            let entry = index
                .get_entry(builder, jbk::EntryIdx::from(i))
                .map_err(|e| format!("{e}"))?
                .unwrap();
            let number = entry.get_value("number").map_err(|e| format!("{e}"))?.unwrap();
            let name = entry.get_value("name").map_err(|e| format!("{e}"))?.unwrap();
            v.push(format!(
                "{:?} {:?}",
                number.get().map_err(|e| format!("{e}"))?,
                name.get().map_err(|e| format!("{e}"))?
            ));
        }
        Ok(v)
    };
    let before = read_all(&builder).unwrap();

    // Flip one bit of one byte of the main file, in place (same inode: no rename), read
    // everything again with the ALREADY OPENED container, put the byte back. Next byte.
    let pristine = std::fs::read(&main).unwrap();
    let mut file = std::fs::OpenOptions::new().write(true).open(&main).unwrap();
    let mut silent = vec![];
    let mut loud = 0;
    let mut unchanged = 0;
    for offset in (0..pristine.len()).step_by(61) {
        file.seek(SeekFrom::Start(offset as u64)).unwrap();
        file.write_all(&[pristine[offset] ^ 0x01]).unwrap();
        file.sync_all().unwrap();
        match read_all(&builder) {
            Err(_) => loud += 1,
            Ok(after) => {
                let changed = before.iter().zip(&after).filter(|(a, b)| a != b).count();
                if changed != 0 {
                    // and a fresh open does see the damage
                    assert!(dump(&main, &["main"]).is_err());
                    silent.push(offset);
                } else {
                    unchanged += 1;
                }
            }
        }
        file.seek(SeekFrom::Start(offset as u64)).unwrap();
        file.write_all(&[pristine[offset]]).unwrap();
    }
    file.sync_all().unwrap();
    println!(
        "h12: loud {loud} unchanged {unchanged} silently changed {} (offsets {:?}...)",
        silent.len(),
        &silent[..std::cmp::min(5, silent.len())]
    );
    assert!(
        silent.is_empty(),
        "{} single byte alterations made after the open silently changed entries",
        silent.len()
    );
}

// ---------------------------------------------------------------------------------------------
// H13 / H14 (crafted alterations, `#[ignore]`d): limits of ANY 32 bit, position independent CRC.
// They are not counted as violations: they document where the literal statement "any alteration"
// stops being true by construction.
//   H13: XOR of the CRC-32C generator polynomial (33 bits, 5 bytes) anywhere inside a block.
//   H14: a valid block overwritten with another valid block of the same size (two cluster tails).
// ---------------------------------------------------------------------------------------------
#[test]
#[ignore = "crafted: multiple of the generator polynomial, undetectable by construction"]
fn h13_crafted_generator_polynomial_xor() {
    // Only the data of the (plain) value store is targeted: the same alteration in a tail gives
    // CRC-valid garbage counts and the reader allocates until the process is killed (loud, but
    // fatal for the test harness).
    quiet_panics();
    const G: [u8; 5] = [0x01, 0x1E, 0xDC, 0x6F, 0x41];
    let spec = Spec {
        entries: 6,
        string_len: 9,
        ..Default::default()
    };
    let dir = tempfile::tempdir().unwrap();
    let main = build(dir.path(), &spec);
    let baseline = dump(&main, &["main"]).unwrap();
    let pristine = std::fs::read(&main).unwrap();
    let needle = string_bytes(0, spec.string_len);
    let start = pristine
        .windows(needle.len())
        .position(|w| w == needle)
        .expect("the first name is stored as is in the plain value store");
    let mut violations = vec![];
    let mut stats = Stats::default();
    for o in start..start + 20 {
        let mut a = pristine.clone();
        for (i, g) in G.iter().enumerate() {
            a[o + i] ^= g;
        }
        std::fs::write(&main, &a).unwrap();
        if let Some(v) = judge(&main, &["main"], &baseline, &mut stats, (&main, o)) {
            violations.push(format!("offset {o}: {v}"));
        }
    }
    report("h13", violations, stats);
}

#[test]
#[ignore = "crafted: a valid block replaced by another valid block of the same size"]
fn h14_crafted_swap_of_two_cluster_tails() {
    quiet_panics();
    let dir = tempfile::tempdir().unwrap();
    let path = dir.path().join("bare.jbkc");
    // 2 raw clusters of 4095 blobs (a raw cluster is closed when it holds 4095 blobs)
    build_bare_content_pack_with(&path, 2 * 4095, &|i| if i < 4095 { 1 + i % 3 } else { 3 - i % 3 });
    let pristine = std::fs::read(&path).unwrap();
    let baseline = dump_content_pack(jbk::Reader::from(pristine.clone())).unwrap();
    let h = 64;
    let cluster_ptr_pos = le(&pristine[h + 8..h + 16]) as usize;
    assert_eq!(le(&pristine[h + 20..h + 24]), 2, "two clusters");
    let so0 = le(&pristine[cluster_ptr_pos..cluster_ptr_pos + 8]);
    let so1 = le(&pristine[cluster_ptr_pos + 8..cluster_ptr_pos + 16]);
    let (t0, s0) = ((so0 >> 16) as usize, (so0 & 0xffff) as usize + 4);
    let (t1, s1) = ((so1 >> 16) as usize, (so1 & 0xffff) as usize + 4);
    assert_eq!(s0, s1, "same tail size");
    let mut a = pristine.clone();
    a[t0..t0 + s0].copy_from_slice(&pristine[t1..t1 + s1]);
    a[t1..t1 + s1].copy_from_slice(&pristine[t0..t0 + s0]);
    assert_ne!(a, pristine);
    match dump_content_pack(jbk::Reader::from(a)) {
        Err(_) => {}
        Ok(got) => assert_eq!(
            got.0, baseline.0,
            "content sizes silently changed (integrity check says {})",
            got.2
        ),
    }
}

// ---------------------------------------------------------------------------------------------
// H15: bytes damaged INSIDE a zstd compressed cluster. The abort of the process (decoder thread
// unwrapping an error) is KNOWN and not judged here; the reads are done in a child process so
// that the other outcomes can be observed: a stream that still decodes (content differs: the
// sizes must not change and the integrity check must fail) and a stream that ends early.
// ---------------------------------------------------------------------------------------------
#[test]
fn h15_child_reader() {
    // helper of h15: does nothing unless it is started by h15
    let main = match std::env::var("HUNT_C05H_CHILD") {
        Ok(p) => PathBuf::from(p),
        Err(_) => return,
    };
    let baseline_path = main.with_extension("baseline");
    let baseline = std::fs::read_to_string(&baseline_path).unwrap();
    match dump_inner(&main, &["main"]) {
        Err(e) => println!("CHILD-RESULT error {e}"),
        Ok(d) => {
            let digest: String = d
                .contents
                .iter()
                .map(|(n, c)| format!("{n}:{c:?};"))
                .collect();
            let (b_structure, b_contents) = baseline.split_once("\n=====\n").unwrap();
            if d.structure != b_structure {
                println!("CHILD-RESULT structure-changed");
            } else if digest != b_contents {
                let container = jbk::reader::Container::new(&main).unwrap();
                println!("CHILD-RESULT content-changed check={:?}", container.check());
            } else {
                println!("CHILD-RESULT same");
            }
        }
    }
}

#[test]
fn h15_damage_inside_zstd_cluster_in_child_process() {
    damage_inside_compressed_cluster("zstd", jbk::creator::Compression::zstd());
}

#[cfg(feature = "lz4")]
#[test]
fn h15_damage_inside_lz4_cluster_in_child_process() {
    damage_inside_compressed_cluster("lz4", jbk::creator::Compression::lz4());
}

#[cfg(feature = "lzma")]
#[test]
fn h15_damage_inside_lzma_cluster_in_child_process() {
    damage_inside_compressed_cluster("lzma", jbk::creator::Compression::lzma());
}

fn damage_inside_compressed_cluster(label: &str, compression: jbk::creator::Compression) {
    use std::process::{Command, Stdio};
    use std::time::{Duration, Instant};
    let spec = Spec {
        compression,
        entries: 4,
        // low entropy contents, so that they are compressed
        content_sizes: vec![600, 40, 1000, 0],
        ..Default::default()
    };
    let dir = tempfile::tempdir().unwrap();
    // the contents of `build` are pseudo random on 251 values: entropy > 6 for big contents.
    // So build our own, compressible, container here.
    let main = {
        let main = dir.path().join("hunt.jbk");
        let main_utf8 = jbk::Utf8PathBuf::from_path_buf(main.clone()).unwrap();
        let mut creator = jbk::creator::BasicCreator::new(
            &main_utf8,
            spec.concat,
            VENDOR_ID,
            spec.compression,
            Arc::new(()),
        )
        .unwrap();
        let value_store = jbk::creator::ValueStore::new_plain(None);
        let schema = schema::Schema::new(
            schema::CommonProperties::new(vec![
                schema::Property::new_array(0, value_store.clone(), "name"),
                schema::Property::new_content_address("content"),
            ]),
            vec![],
            None,
        );
        let mut entry_store = Box::new(CEntryStore::new(schema, None));
        for i in 0..spec.entries {
            let size = spec.content_sizes[i];
            let content: Vec<u8> = (0..size).map(|j| b"jubako "[(i + j) % 7]).collect();
            let address = creator
                .add_content(
                    Box::new(std::io::Cursor::new(content)),
                    jbk::creator::CompHint::Yes,
                )
                .unwrap();
            let values = HashMap::from([
                ("name", jbk::Value::Array(string_bytes(i, 5).into())),
                ("content", jbk::Value::Content(address)),
            ]);
            let entry = EntryType::new_from_schema(&entry_store.schema, None, values);
            entry_store.add_entry(entry);
        }
        creator
            .finalize(
                Box::new(Stores {
                    value_store,
                    entry_store,
                    count: spec.entries as u32,
                    second_index: false,
                }),
                vec![],
            )
            .unwrap();
        main
    };
    let baseline = dump(&main, &["main"]).unwrap();
    let digest: String = baseline
        .contents
        .iter()
        .map(|(n, c)| format!("{n}:{c:?};"))
        .collect();
    std::fs::write(
        main.with_extension("baseline"),
        format!("{}\n=====\n{}", baseline.structure, digest),
    )
    .unwrap();
    let pristine = std::fs::read(&main).unwrap();
    let regions: Vec<_> = cluster_regions(&pristine)
        .into_iter()
        .filter(|r| r.2)
        .collect();
    assert!(!regions.is_empty(), "a compressed cluster is expected");
    let exe = std::env::current_exe().unwrap();
    let mut outcomes: HashMap<String, usize> = HashMap::new();
    let mut violations = vec![];
    for (start, end, _) in regions {
        for offset in start..end {
            for mask in [0x01u8, 0x40] {
                let mut a = pristine.clone();
                a[offset] ^= mask;
                std::fs::write(&main, &a).unwrap();
                let mut child = Command::new(&exe)
                    .args(["--exact", "h15_child_reader", "--nocapture", "--test-threads", "1"])
                    .env("HUNT_C05H_CHILD", &main)
                    .stdout(Stdio::piped())
                    .stderr(Stdio::null())
                    .spawn()
                    .unwrap();
                let started = Instant::now();
                let outcome = loop {
                    match child.try_wait().unwrap() {
                        Some(status) => {
                            let mut out = String::new();
                            child.stdout.take().unwrap().read_to_string(&mut out).unwrap();
                            let line = out
                                .lines()
                                .find_map(|l| l.split_once("CHILD-RESULT ").map(|x| x.1.to_string()));
                            break match line {
                                Some(l) => l,
                                None => format!("died ({status})"),
                            };
                        }
                        None => {
                            if started.elapsed() > Duration::from_secs(4) {
                                child.kill().unwrap();
                                child.wait().unwrap();
                                break "HANG (killed after 4s)".to_string();
                            }
                            std::thread::sleep(Duration::from_millis(2));
                        }
                    }
                };
                let key = if outcome.starts_with("error") {
                    "error".to_string()
                } else {
                    outcome.clone()
                };
                if outcome.starts_with("structure-changed")
                    || outcome.starts_with("content-changed check=Ok(true)")
                {
                    violations.push(format!("offset {offset} mask {mask:02x}: {outcome}"));
                }
                *outcomes.entry(key).or_default() += 1;
            }
        }
    }
    std::fs::write(&main, &pristine).unwrap();
    let mut outcomes: Vec<_> = outcomes.into_iter().collect();
    outcomes.sort();
    println!("h15 {label} outcomes: {outcomes:?}");
    assert!(violations.is_empty(), "{}", violations.join("\n"));
}

// ---------------------------------------------------------------------------------------------
// Side finding, NOT a C05 matter (it is loud, and happens on pristine containers): the check
// info of each pack recorded in the manifest cannot be read back. The creator stores the size
// of the block WITH its CRC in the SizedOffset, and the reader adds the CRC once more.
// ---------------------------------------------------------------------------------------------
#[test]
#[ignore = "side finding outside of C05: ManifestPack::get_pack_check_info fails on pristine containers"]
fn side_manifest_pack_check_info_is_unreadable() {
    let dir = tempfile::tempdir().unwrap();
    let main = build(dir.path(), &Spec::default());
    let container_pack = jbk::tools::open_pack(&main).unwrap();
    let manifest_reader = container_pack.get_manifest_pack_reader().unwrap().unwrap();
    let manifest = jbk::reader::ManifestPack::new(manifest_reader).unwrap();
    for info in manifest.get_pack_infos() {
        let check_info = manifest.get_pack_check_info(info.uuid);
        assert!(check_info.is_ok(), "{:?}", check_info.err().map(|e| format!("{e}")));
    }
}
