//! Bug hunt for property C02: entries read back with exactly the property values they were
//! written with.
//!
//! Every test writes a directory pack with the public creator API and reads it back with the
//! public reader API. A test PASSES when the property holds and FAILS when it is violated.

use jubako::creator;
use jubako::creator::schema;
use jubako::reader::{EntryTrait, Range};
use std::collections::HashMap;
use std::fs::OpenOptions;
use std::io::Seek;
use std::sync::Arc;

// ---------------------------------------------------------------------------------------------
// Harness
// ---------------------------------------------------------------------------------------------

#[derive(Clone, Copy, Debug, PartialEq)]
enum SK {
    Plain,
    Indexed,
}

#[derive(Clone, Debug)]
enum P {
    U(&'static str),
    S(&'static str),
    C(&'static str),
    /// name, inline prefix length, store number
    A(&'static str, usize, usize),
}

#[derive(Clone, Debug, PartialEq)]
enum V {
    U(u64),
    S(i64),
    C(u16, u32),
    A(Vec<u8>),
}

#[derive(Clone, Debug)]
struct E {
    variant: Option<&'static str>,
    values: Vec<(&'static str, V)>,
}

fn e(values: Vec<(&'static str, V)>) -> E {
    E {
        variant: None,
        values,
    }
}

fn ev(variant: &'static str, values: Vec<(&'static str, V)>) -> E {
    E {
        variant: Some(variant),
        values,
    }
}

#[derive(Clone, Debug)]
struct Def {
    stores: Vec<SK>,
    common: Vec<P>,
    variants: Vec<(&'static str, Vec<P>)>,
    sort_keys: Option<Vec<&'static str>>,
}

fn mk_prop(p: &P, stores: &[creator::StoreHandle]) -> schema::Property<&'static str> {
    match p {
        P::U(n) => schema::Property::new_uint(*n),
        P::S(n) => schema::Property::new_sint(*n),
        P::C(n) => schema::Property::new_content_address(*n),
        P::A(n, fixed, store) => schema::Property::new_array(*fixed, stores[*store].clone(), *n),
    }
}

fn mk_value(v: &V) -> jubako::Value {
    match v {
        V::U(v) => jubako::Value::Unsigned(*v),
        V::S(v) => jubako::Value::Signed(*v),
        V::C(p, c) => jubako::Value::Content(jubako::ContentAddress::new((*p).into(), (*c).into())),
        V::A(a) => jubako::Value::Array(a.as_slice().into()),
    }
}

fn tmpdir() -> tempfile::TempDir {
    tempfile::tempdir().unwrap()
}

/// Writes a directory pack. `indexes` are (name, offset, count) windows on the (only) entry store.
/// Returns the path of the file (kept alive by the returned TempDir).
fn write_pack(
    def: &Def,
    entries: &[E],
    indexes: &[(&str, u32, u32)],
) -> (tempfile::TempDir, std::path::PathBuf) {
    let mut creator = creator::DirectoryPackCreator::new(
        jubako::PackId::from(1),
        jubako::VendorId::from([1, 0, 0, 0]),
        Default::default(),
    );
    let stores: Vec<creator::StoreHandle> = def
        .stores
        .iter()
        .map(|k| match k {
            SK::Plain => creator::ValueStore::new_plain(None),
            SK::Indexed => creator::ValueStore::new_indexed(),
        })
        .collect();
    for s in &stores {
        creator.add_value_store(s.clone());
    }
    let schema = schema::Schema::<&'static str, &'static str>::new(
        schema::CommonProperties::new(def.common.iter().map(|p| mk_prop(p, &stores)).collect()),
        def.variants
            .iter()
            .map(|(n, ps)| {
                (
                    *n,
                    schema::VariantProperties::new(
                        ps.iter().map(|p| mk_prop(p, &stores)).collect(),
                    ),
                )
            })
            .collect(),
        def.sort_keys.clone(),
    );
    let mut entry_store = Box::new(creator::EntryStore::new(schema, None));
    for entry in entries {
        let values: HashMap<&'static str, jubako::Value> = entry
            .values
            .iter()
            .map(|(n, v)| (*n, mk_value(v)))
            .collect();
        entry_store.add_entry(creator::BasicEntry::new_from_schema(
            &entry_store.schema,
            entry.variant,
            values,
        ));
    }
    let store_idx = creator.add_entry_store(entry_store);
    for (name, offset, count) in indexes {
        creator.create_index(
            name,
            Default::default(),
            0.into(),
            store_idx,
            (*count).into(),
            jubako::EntryIdx::from(*offset).into(),
        );
    }
    let dir = tmpdir();
    let path = dir.path().join("pack.jbkd");
    let mut file = OpenOptions::new()
        .read(true)
        .write(true)
        .create(true)
        .truncate(true)
        .open(&path)
        .unwrap();
    creator.finalize().unwrap().write(&mut file).unwrap();
    file.rewind().unwrap();
    (dir, path)
}

fn open_pack(path: &std::path::Path) -> Arc<jubako::reader::DirectoryPack> {
    let file = std::fs::File::open(path).unwrap();
    let reader: jubako::Reader = jubako::FileSource::new(file).unwrap().into();
    Arc::new(jubako::reader::DirectoryPack::new(reader).unwrap())
}

fn props_of<'a>(def: &'a Def, variant: Option<&str>) -> Vec<&'a P> {
    let mut props: Vec<&P> = def.common.iter().collect();
    if let Some(v) = variant {
        let (_, ps) = def.variants.iter().find(|(n, _)| *n == v).unwrap();
        props.extend(ps.iter());
    }
    props
}

fn name_of(p: &P) -> &'static str {
    match p {
        P::U(n) | P::S(n) | P::C(n) | P::A(n, _, _) => n,
    }
}

/// Reads the window `index_name` and compares it with `expected` (in order).
fn check_index(def: &Def, path: &std::path::Path, index_name: &str, expected: &[E]) {
    let pack = open_pack(path);
    let index = pack
        .get_index_from_name(index_name)
        .unwrap()
        .unwrap_or_else(|| panic!("index {index_name} not found"));
    let entry_storage = pack.create_entry_storage();
    let value_storage = pack.create_value_storage();
    let store = index.get_store(&entry_storage).unwrap();
    let builder =
        jubako::reader::builder::AnyBuilder::new(Arc::clone(&store), value_storage.as_ref())
            .unwrap();
    assert_eq!(
        index.count().into_u32() as usize,
        expected.len(),
        "index {index_name} count"
    );
    // variant id -> name
    let variant_names: HashMap<u8, String> = match &store.layout().variant_part {
        None => HashMap::new(),
        Some(vp) => vp
            .names
            .iter()
            .map(|(n, i)| (*i, n.as_str().to_string()))
            .collect(),
    };
    for (i, exp) in expected.iter().enumerate() {
        let entry = index
            .get_entry(&builder, jubako::EntryIdx::from(i as u32))
            .unwrap()
            .unwrap_or_else(|| panic!("entry {i} must be in index {index_name}"));
        let variant_id = entry.get_variant_id().unwrap();
        match exp.variant {
            None => assert_eq!(variant_id, None, "entry {i} variant"),
            Some(v) => {
                let id = variant_id.expect("entry must have a variant id");
                assert_eq!(
                    variant_names.get(&id.into_u8()).map(|s| s.as_str()),
                    Some(v),
                    "entry {i} variant"
                );
            }
        }
        for p in props_of(def, exp.variant) {
            let name = name_of(p);
            let (_, exp_v) = exp.values.iter().find(|(n, _)| *n == name).unwrap();
            let raw = entry
                .get_value(name)
                .unwrap()
                .unwrap_or_else(|| panic!("entry {i}: value {name} missing"));
            let got = match raw.get().unwrap() {
                jubako::Value::Unsigned(v) => V::U(v),
                jubako::Value::Signed(v) => V::S(v),
                jubako::Value::Content(c) => {
                    V::C(c.pack_id.into_u16(), c.content_id.into_u32())
                }
                jubako::Value::Array(a) => V::A(a.to_vec()),
                _ => panic!("unexpected value kind"),
            };
            assert_eq!(&got, exp_v, "entry {i} of index {index_name}: property {name}");
        }
    }
    // Nothing beyond the window.
    let beyond = index
        .get_entry(&builder, jubako::EntryIdx::from(expected.len() as u32))
        .unwrap();
    assert!(beyond.is_none(), "index {index_name} exposes an entry beyond its window");
}

fn roundtrip(def: &Def, entries: &[E]) {
    let (_dir, path) = write_pack(def, entries, &[("all", 0, entries.len() as u32)]);
    check_index(def, &path, "all", entries);
}

// ---------------------------------------------------------------------------------------------
// H1: unsigned integers at every byte-width boundary, with and without a constant column
// ---------------------------------------------------------------------------------------------

fn uint_boundaries() -> Vec<u64> {
    let mut v = vec![0u64, 1];
    for b in 1..8 {
        let p = 1u64 << (8 * b);
        v.extend([p - 1, p, p + 1]);
    }
    v.extend([u64::MAX - 1, u64::MAX, i64::MAX as u64, (i64::MAX as u64) + 1]);
    v
}

#[test]
fn h01_unsigned_every_width_boundary_as_column_max() {
    // For each boundary value m, a column whose max is m (so the column width is decided by m).
    for m in uint_boundaries() {
        let def = Def {
            stores: vec![],
            common: vec![P::U("u")],
            variants: vec![],
            sort_keys: None,
        };
        let entries = vec![
            e(vec![("u", V::U(0))]),
            e(vec![("u", V::U(m))]),
            e(vec![("u", V::U(m / 2))]),
        ];
        roundtrip(&def, &entries);
        // constant column
        let entries = vec![e(vec![("u", V::U(m))]), e(vec![("u", V::U(m))])];
        roundtrip(&def, &entries);
        // single entry
        roundtrip(&def, &[e(vec![("u", V::U(m))])]);
    }
}

// ---------------------------------------------------------------------------------------------
// H2: signed integers at every two's complement boundary and both signs
// ---------------------------------------------------------------------------------------------

fn sint_boundaries() -> Vec<i64> {
    let mut v = vec![0i64, 1, -1];
    for b in 1..8 {
        let p = 1i64 << (8 * b - 1); // 128, 32768, ...
        v.extend([p - 1, p, p + 1, -p + 1, -p, -p - 1]);
        let q = 1i64 << (8 * b); // 256, 65536
        v.extend([q - 1, q, -q, -q + 1, -q - 1]);
    }
    v.extend([i64::MAX, i64::MAX - 1, i64::MIN, i64::MIN + 1]);
    v
}

#[test]
fn h02_signed_every_width_boundary_both_signs() {
    for m in sint_boundaries() {
        let def = Def {
            stores: vec![],
            common: vec![P::S("s")],
            variants: vec![],
            sort_keys: None,
        };
        // m decides the width, other values are small
        let entries = vec![
            e(vec![("s", V::S(0))]),
            e(vec![("s", V::S(m))]),
            e(vec![("s", V::S(-1))]),
            e(vec![("s", V::S(1))]),
        ];
        roundtrip(&def, &entries);
        // constant column
        roundtrip(&def, &[e(vec![("s", V::S(m))]), e(vec![("s", V::S(m))])]);
        // single
        roundtrip(&def, &[e(vec![("s", V::S(m))])]);
        // m and its opposite / complement
        let entries = vec![
            e(vec![("s", V::S(m))]),
            e(vec![("s", V::S(m.wrapping_neg()))]),
            e(vec![("s", V::S(!m))]),
        ];
        roundtrip(&def, &entries);
    }
}

// ---------------------------------------------------------------------------------------------
// H3: content addresses at pack id and content id width boundaries
// ---------------------------------------------------------------------------------------------

#[test]
fn h03_content_address_boundaries() {
    let packs = [0u16, 1, 255, 256, 65534, 65535];
    let contents = [
        0u32,
        1,
        255,
        256,
        65535,
        65536,
        0xFF_FFFF,
        0x100_0000,
        u32::MAX - 1,
        u32::MAX,
    ];
    let def = Def {
        stores: vec![],
        common: vec![P::C("c")],
        variants: vec![],
        sort_keys: None,
    };
    for &p in &packs {
        for &c in &contents {
            // constant pack id
            roundtrip(
                &def,
                &[e(vec![("c", V::C(p, c))]), e(vec![("c", V::C(p, 0))])],
            );
            // varying pack id
            roundtrip(
                &def,
                &[
                    e(vec![("c", V::C(p, c))]),
                    e(vec![("c", V::C(0, 0))]),
                    e(vec![("c", V::C(1, c / 2))]),
                ],
            );
            // single entry
            roundtrip(&def, &[e(vec![("c", V::C(p, c))])]);
        }
    }
}

// ---------------------------------------------------------------------------------------------
// H4: arrays: every inline prefix 0..31, each store kind, lengths around the prefix
// ---------------------------------------------------------------------------------------------

fn bytes(len: usize, seed: u8) -> Vec<u8> {
    (0..len)
        .map(|i| (i as u8).wrapping_mul(31).wrapping_add(seed))
        .collect()
}

#[test]
fn h04_arrays_every_prefix_every_store_kind() {
    for kind in [SK::Plain, SK::Indexed] {
        for fixed in 0..=31usize {
            let def = Def {
                stores: vec![kind],
                common: vec![P::A("a", fixed, 0)],
                variants: vec![],
                sort_keys: None,
            };
            let mut entries = vec![];
            for len in [
                0usize,
                1,
                2,
                3,
                fixed.saturating_sub(1),
                fixed,
                fixed + 1,
                fixed + 2,
                40,
                255,
                256,
                257,
            ] {
                entries.push(e(vec![("a", V::A(bytes(len, len as u8)))]));
            }
            // duplicates, and values that share the same tail but not the same prefix
            entries.push(e(vec![("a", V::A(bytes(40, 40)))]));
            let mut other = bytes(40, 40);
            other[0] ^= 0xFF;
            entries.push(e(vec![("a", V::A(other))]));
            roundtrip(&def, &entries);
            // only empty arrays
            roundtrip(
                &def,
                &[e(vec![("a", V::A(vec![]))]), e(vec![("a", V::A(vec![]))])],
            );
            // a single array shorter than the prefix
            if fixed > 0 {
                roundtrip(&def, &[e(vec![("a", V::A(bytes(fixed - 1, 7)))])]);
            }
        }
    }
}

// ---------------------------------------------------------------------------------------------
// H5: array length width boundaries (255/256, 65535/65536) and store key width boundaries
// ---------------------------------------------------------------------------------------------

#[test]
fn h05_array_length_width_boundaries() {
    for kind in [SK::Plain, SK::Indexed] {
        for fixed in [0usize, 1, 5, 31] {
            for len in [254usize, 255, 256, 257, 65534, 65535, 65536, 65537, 70000] {
                let def = Def {
                    stores: vec![kind],
                    common: vec![P::A("a", fixed, 0)],
                    variants: vec![],
                    sort_keys: None,
                };
                let entries = vec![
                    e(vec![("a", V::A(bytes(len, 3)))]),
                    e(vec![("a", V::A(bytes(1, 9)))]),
                    e(vec![("a", V::A(vec![]))]),
                ];
                roundtrip(&def, &entries);
            }
        }
    }
}

#[test]
fn h06_plain_store_key_width_boundaries() {
    // The key of a plain store is an offset: total size 255/256/257, 65535/65536/65537.
    for fixed in [0usize, 2] {
        for total in [255usize, 256, 257, 65535, 65536, 65537] {
            let def = Def {
                stores: vec![SK::Plain],
                common: vec![P::A("a", fixed, 0)],
                variants: vec![],
                sort_keys: None,
            };
            // two values whose tails sum to `total`; the second one (sorted last) is 1 byte long so
            // that its offset is total - 1, and an empty one.
            let mut first = vec![0u8; fixed];
            first.extend(std::iter::repeat(1u8).take(total - 1));
            let mut second = vec![0u8; fixed];
            second.push(0xFF);
            let entries = vec![
                e(vec![("a", V::A(first))]),
                e(vec![("a", V::A(second))]),
                e(vec![("a", V::A(vec![]))]),
            ];
            roundtrip(&def, &entries);
        }
    }
}

#[test]
fn h07_indexed_store_key_width_boundaries() {
    // The key of an indexed store is a rank: 255/256/257 and 65535/65536/65537 distinct values.
    for fixed in [0usize, 1] {
        for count in [255usize, 256, 257, 65536, 65537] {
            let def = Def {
                stores: vec![SK::Indexed],
                common: vec![P::A("a", fixed, 0)],
                variants: vec![],
                sort_keys: None,
            };
            let entries: Vec<E> = (0..count)
                .map(|i| {
                    let mut a = vec![b'p'; fixed];
                    a.extend_from_slice(&(i as u32).to_be_bytes());
                    if i % 7 == 0 {
                        a.extend_from_slice(b"tail");
                    }
                    e(vec![("a", V::A(a))])
                })
                .collect();
            if count > 20000 {
                // The offsets of 65536 values do not fit a 64KiB tail: creation must fail, or the
                // values must be read back unaltered.
                let d = def.clone();
                let en = entries.clone();
                let written = std::panic::catch_unwind(move || {
                    let (dir, path) = write_pack(&d, &en, &[("all", 0, en.len() as u32)]);
                    (dir, path)
                });
                if let Ok((_dir, path)) = written {
                    check_index(&def, &path, "all", &entries);
                }
            } else {
                roundtrip(&def, &entries);
            }
        }
    }
}

// ---------------------------------------------------------------------------------------------
// H8: shared stores, several array columns, mixed plain/indexed
// ---------------------------------------------------------------------------------------------

#[test]
fn h08_shared_and_multiple_stores() {
    let def = Def {
        stores: vec![SK::Plain, SK::Indexed],
        common: vec![
            P::A("a", 0, 0),
            P::A("b", 3, 0),
            P::A("c", 0, 1),
            P::A("d", 2, 1),
            P::U("u"),
        ],
        variants: vec![],
        sort_keys: None,
    };
    let mut entries = vec![];
    for i in 0..300usize {
        entries.push(e(vec![
            ("a", V::A(bytes(i % 17, i as u8))),
            ("b", V::A(bytes(i % 5, (i / 3) as u8))),
            ("c", V::A(bytes(i % 13, i as u8))),
            ("d", V::A(bytes((i * 7) % 11, (i / 2) as u8))),
            ("u", V::U(i as u64)),
        ]));
    }
    roundtrip(&def, &entries);
}

// ---------------------------------------------------------------------------------------------
// H9: variants of unequal size
// ---------------------------------------------------------------------------------------------

fn variant_def() -> Def {
    Def {
        stores: vec![SK::Plain, SK::Indexed],
        common: vec![P::A("name", 1, 0), P::U("id")],
        variants: vec![
            ("file", vec![P::C("content"), P::U("size"), P::S("mtime")]),
            ("dir", vec![P::U("first"), P::U("count")]),
            ("link", vec![P::A("target", 0, 1)]),
            ("empty", vec![]),
        ],
        sort_keys: None,
    }
}

#[test]
fn h09_variants_unequal_sizes() {
    let def = variant_def();
    let mut entries = vec![];
    for i in 0..50u64 {
        entries.push(ev(
            "file",
            vec![
                ("name", V::A(format!("file{i}").into_bytes())),
                ("id", V::U(i)),
                ("content", V::C((i % 3) as u16, (i * 1000) as u32)),
                ("size", V::U(i << 20)),
                ("mtime", V::S(-(i as i64) * 100000)),
            ],
        ));
        entries.push(ev(
            "dir",
            vec![
                ("name", V::A(format!("dir{i}").into_bytes())),
                ("id", V::U(i + 1000)),
                ("first", V::U(i)),
                ("count", V::U(i * 3)),
            ],
        ));
        entries.push(ev(
            "link",
            vec![
                ("name", V::A(format!("l{i}").into_bytes())),
                ("id", V::U(i + 2000)),
                ("target", V::A(format!("../target/{}", i % 4).into_bytes())),
            ],
        ));
        entries.push(ev(
            "empty",
            vec![("name", V::A(vec![])), ("id", V::U(i + 3000))],
        ));
    }
    roundtrip(&def, &entries);
}

#[test]
fn h10_variants_some_unused() {
    // Only one of the declared variants is used.
    let def = variant_def();
    let entries: Vec<E> = (0..5u64)
        .map(|i| {
            ev(
                "link",
                vec![
                    ("name", V::A(format!("l{i}").into_bytes())),
                    ("id", V::U(i)),
                    ("target", V::A(format!("t{i}").into_bytes())),
                ],
            )
        })
        .collect();
    roundtrip(&def, &entries);
    // No entry at all with declared variants
    roundtrip(&def, &[]);
}

#[test]
fn h11_variants_all_columns_constant() {
    // Every variant column is constant: every variant has a stored size of 0 besides its id.
    let def = Def {
        stores: vec![],
        common: vec![P::U("id")],
        variants: vec![
            ("a", vec![P::U("x"), P::S("y")]),
            ("b", vec![P::U("z")]),
        ],
        sort_keys: None,
    };
    let entries = vec![
        ev("a", vec![("id", V::U(1)), ("x", V::U(5)), ("y", V::S(-5))]),
        ev("b", vec![("id", V::U(2)), ("z", V::U(70000))]),
        ev("a", vec![("id", V::U(3)), ("x", V::U(5)), ("y", V::S(-5))]),
    ];
    roundtrip(&def, &entries);
}

#[test]
fn h12_variants_without_any_property() {
    // Variants that only differ by their id (no variant specific property).
    let def = Def {
        stores: vec![],
        common: vec![P::U("id")],
        variants: vec![("a", vec![]), ("b", vec![])],
        sort_keys: None,
    };
    let entries = vec![
        ev("a", vec![("id", V::U(1))]),
        ev("b", vec![("id", V::U(2))]),
        ev("a", vec![("id", V::U(300))]),
    ];
    roundtrip(&def, &entries);
}

#[test]
fn h13_variant_empty_next_to_constant_only_variant() {
    // One variant has no property, the other only constant (size 0) ones.
    let def = Def {
        stores: vec![],
        common: vec![P::U("id")],
        variants: vec![("a", vec![P::U("x")]), ("b", vec![])],
        sort_keys: None,
    };
    let entries = vec![
        ev("a", vec![("id", V::U(1)), ("x", V::U(9))]),
        ev("b", vec![("id", V::U(2))]),
        ev("a", vec![("id", V::U(3)), ("x", V::U(9))]),
    ];
    roundtrip(&def, &entries);
}

#[test]
fn h14_single_variant_without_property() {
    let def = Def {
        stores: vec![],
        common: vec![P::U("id")],
        variants: vec![("only", vec![])],
        sort_keys: None,
    };
    let entries = vec![
        ev("only", vec![("id", V::U(1))]),
        ev("only", vec![("id", V::U(2))]),
    ];
    roundtrip(&def, &entries);
}

#[test]
fn h15_variant_large_padding() {
    // One variant is much bigger than the others: padding > 16 bytes, == 16, == 32.
    for big in [15usize, 16, 17, 31] {
        let def = Def {
            stores: vec![SK::Plain],
            common: vec![],
            variants: vec![
                ("big", vec![P::A("a", big, 0), P::U("u")]),
                ("small", vec![P::U("v")]),
                ("none", vec![]),
            ],
            sort_keys: None,
        };
        let entries = vec![
            ev(
                "big",
                vec![("a", V::A(bytes(big + 4, 1))), ("u", V::U(u64::MAX))],
            ),
            ev("small", vec![("v", V::U(3))]),
            ev("none", vec![]),
            ev("small", vec![("v", V::U(4))]),
            ev("big", vec![("a", V::A(bytes(2, 1))), ("u", V::U(0))]),
        ];
        roundtrip(&def, &entries);
    }
}

#[test]
fn h16_no_common_property_no_variant() {
    // Schema with no property at all: entries have size 0.
    let def = Def {
        stores: vec![],
        common: vec![],
        variants: vec![],
        sort_keys: None,
    };
    roundtrip(&def, &[e(vec![]), e(vec![]), e(vec![])]);
    roundtrip(&def, &[]);
}

#[test]
fn h17_all_common_columns_constant() {
    // Every column constant: entry size 0 with several entries.
    let def = Def {
        stores: vec![],
        common: vec![P::U("u"), P::S("s")],
        variants: vec![],
        sort_keys: None,
    };
    let entries: Vec<E> = (0..5)
        .map(|_| e(vec![("u", V::U(1 << 40)), ("s", V::S(-(1 << 40)))]))
        .collect();
    roundtrip(&def, &entries);
}

// ---------------------------------------------------------------------------------------------
// H18: index windows
// ---------------------------------------------------------------------------------------------

#[test]
fn h18_index_windows() {
    let def = Def {
        stores: vec![SK::Plain],
        common: vec![P::A("a", 2, 0), P::U("u"), P::S("s")],
        variants: vec![],
        sort_keys: None,
    };
    let entries: Vec<E> = (0..1000u64)
        .map(|i| {
            e(vec![
                ("a", V::A(format!("entry-{i}").into_bytes())),
                ("u", V::U(i * i)),
                ("s", V::S(500 - i as i64)),
            ])
        })
        .collect();
    let windows: Vec<(&str, u32, u32)> = vec![
        ("all", 0, 1000),
        ("first", 0, 1),
        ("last", 999, 1),
        ("empty0", 0, 0),
        ("empty_mid", 500, 0),
        ("empty_end", 1000, 0),
        ("mid", 255, 257),
        ("tail", 744, 256),
    ];
    let (_dir, path) = write_pack(&def, &entries, &windows);
    for (name, offset, count) in &windows {
        check_index(
            &def,
            &path,
            name,
            &entries[*offset as usize..(*offset + *count) as usize],
        );
    }
}

// ---------------------------------------------------------------------------------------------
// H19: thousands of entries, varying + constant columns, everything together
// ---------------------------------------------------------------------------------------------

#[test]
fn h19_thousands_of_entries_mixed() {
    let def = Def {
        stores: vec![SK::Indexed, SK::Plain],
        common: vec![
            P::A("path", 4, 1),
            P::A("mime", 0, 0),
            P::U("const_u"),
            P::C("content"),
            P::S("delta"),
            P::U("u"),
        ],
        variants: vec![],
        sort_keys: None,
    };
    let mimes: [&[u8]; 4] = [b"text/html", b"image/png", b"", b"application/javascript"];
    let entries: Vec<E> = (0..5000u64)
        .map(|i| {
            e(vec![
                ("path", V::A(format!("A/{}", i * 7919).into_bytes())),
                ("mime", V::A(mimes[(i % 4) as usize].to_vec())),
                ("const_u", V::U(77)),
                ("content", V::C(1, i as u32 * 17)),
                ("delta", V::S((i as i64 - 2500) * 4001)),
                ("u", V::U(i.wrapping_mul(0x9E3779B97F4A7C15))),
            ])
        })
        .collect();
    roundtrip(&def, &entries);
}

// ---------------------------------------------------------------------------------------------
// H20: sorted store (sort keys): entries keep their own values, in sorted order
// ---------------------------------------------------------------------------------------------

#[test]
fn h20_sorted_store_keeps_values_attached() {
    for (kind, fixed) in [(SK::Plain, 0usize), (SK::Plain, 2), (SK::Indexed, 0), (SK::Indexed, 3)] {
        let def = Def {
            stores: vec![kind],
            common: vec![P::A("k", fixed, 0), P::U("u"), P::S("s")],
            variants: vec![],
            sort_keys: Some(vec!["k"]),
        };
        let mut entries: Vec<E> = (0..500u64)
            .map(|i| {
                let key = format!("{:x}/{}", (i * 7919) % 1000, i);
                e(vec![
                    ("k", V::A(key.into_bytes())),
                    ("u", V::U(i)),
                    ("s", V::S(-(i as i64))),
                ])
            })
            .collect();
        let (_dir, path) = write_pack(&def, &entries, &[("all", 0, entries.len() as u32)]);
        entries.sort_by(|a, b| {
            let ka = match &a.values[0].1 {
                V::A(a) => a.clone(),
                _ => unreachable!(),
            };
            let kb = match &b.values[0].1 {
                V::A(a) => a.clone(),
                _ => unreachable!(),
            };
            ka.cmp(&kb)
        });
        check_index(&def, &path, "all", &entries);
    }
}

// ---------------------------------------------------------------------------------------------
// H21: a value that cannot be represented makes creation fail
// ---------------------------------------------------------------------------------------------

#[test]
fn h21_inline_prefix_longer_than_31_is_refused_or_exact() {
    // The inline prefix is stored on 5 bits. 32 and more cannot be represented.
    let mut silently_altered = vec![];
    for fixed in [32usize, 33, 64, 100, 255, 256, 257, 288] {
        for kind in [SK::Plain, SK::Indexed] {
            let def = Def {
                stores: vec![kind],
                common: vec![P::A("a", fixed, 0), P::U("u")],
                variants: vec![],
                sort_keys: None,
            };
            let entries = vec![
                e(vec![("a", V::A(bytes(300, 1))), ("u", V::U(1))]),
                e(vec![("a", V::A(bytes(10, 2))), ("u", V::U(2))]),
                e(vec![("a", V::A(bytes(40, 3))), ("u", V::U(3))]),
            ];
            let d = def.clone();
            let en = entries.clone();
            let written = std::panic::catch_unwind(move || {
                write_pack(&d, &en, &[("all", 0, en.len() as u32)])
            });
            // Creation failing is fine. If it succeeds the values must be read back exactly.
            if let Ok((_dir, path)) = written {
                let d = def.clone();
                let en = entries.clone();
                let read = std::panic::catch_unwind(move || check_index(&d, &path, "all", &en));
                if read.is_err() {
                    silently_altered.push((fixed, kind));
                }
            }
        }
    }
    assert!(
        silently_altered.is_empty(),
        "creation succeeded but the values are not read back with inline prefix / store kind: {silently_altered:?}"
    );
}

#[test]
fn h22_array_longer_than_24_bits_is_refused() {
    // The length of an array is stored on at most 3 bytes.
    let def = Def {
        stores: vec![SK::Plain],
        common: vec![P::A("a", 0, 0)],
        variants: vec![],
        sort_keys: None,
    };
    let entries = vec![e(vec![("a", V::A(vec![7u8; 0x100_0000]))])];
    let d = def.clone();
    let en = entries.clone();
    let written =
        std::panic::catch_unwind(move || write_pack(&d, &en, &[("all", 0, en.len() as u32)]));
    if let Ok((_dir, path)) = written {
        check_index(&def, &path, "all", &entries);
    }
    // 0xFFFFFF is the largest representable
    let entries = vec![e(vec![("a", V::A(vec![7u8; 0xFF_FFFF]))])];
    roundtrip(&def, &entries);
}

// ---------------------------------------------------------------------------------------------
// H23: many properties (layout tail size, property count)
// ---------------------------------------------------------------------------------------------

const NAMES: [&str; 260] = {
    // 260 distinct static names
    [
        "p000", "p001", "p002", "p003", "p004", "p005", "p006", "p007", "p008", "p009", "p010",
        "p011", "p012", "p013", "p014", "p015", "p016", "p017", "p018", "p019", "p020", "p021",
        "p022", "p023", "p024", "p025", "p026", "p027", "p028", "p029", "p030", "p031", "p032",
        "p033", "p034", "p035", "p036", "p037", "p038", "p039", "p040", "p041", "p042", "p043",
        "p044", "p045", "p046", "p047", "p048", "p049", "p050", "p051", "p052", "p053", "p054",
        "p055", "p056", "p057", "p058", "p059", "p060", "p061", "p062", "p063", "p064", "p065",
        "p066", "p067", "p068", "p069", "p070", "p071", "p072", "p073", "p074", "p075", "p076",
        "p077", "p078", "p079", "p080", "p081", "p082", "p083", "p084", "p085", "p086", "p087",
        "p088", "p089", "p090", "p091", "p092", "p093", "p094", "p095", "p096", "p097", "p098",
        "p099", "p100", "p101", "p102", "p103", "p104", "p105", "p106", "p107", "p108", "p109",
        "p110", "p111", "p112", "p113", "p114", "p115", "p116", "p117", "p118", "p119", "p120",
        "p121", "p122", "p123", "p124", "p125", "p126", "p127", "p128", "p129", "p130", "p131",
        "p132", "p133", "p134", "p135", "p136", "p137", "p138", "p139", "p140", "p141", "p142",
        "p143", "p144", "p145", "p146", "p147", "p148", "p149", "p150", "p151", "p152", "p153",
        "p154", "p155", "p156", "p157", "p158", "p159", "p160", "p161", "p162", "p163", "p164",
        "p165", "p166", "p167", "p168", "p169", "p170", "p171", "p172", "p173", "p174", "p175",
        "p176", "p177", "p178", "p179", "p180", "p181", "p182", "p183", "p184", "p185", "p186",
        "p187", "p188", "p189", "p190", "p191", "p192", "p193", "p194", "p195", "p196", "p197",
        "p198", "p199", "p200", "p201", "p202", "p203", "p204", "p205", "p206", "p207", "p208",
        "p209", "p210", "p211", "p212", "p213", "p214", "p215", "p216", "p217", "p218", "p219",
        "p220", "p221", "p222", "p223", "p224", "p225", "p226", "p227", "p228", "p229", "p230",
        "p231", "p232", "p233", "p234", "p235", "p236", "p237", "p238", "p239", "p240", "p241",
        "p242", "p243", "p244", "p245", "p246", "p247", "p248", "p249", "p250", "p251", "p252",
        "p253", "p254", "p255", "p256", "p257", "p258", "p259",
    ]
};

fn many_props_case(n: usize) {
    let def = Def {
        stores: vec![],
        common: (0..n)
            .map(|i| if i % 2 == 0 { P::U(NAMES[i]) } else { P::S(NAMES[i]) })
            .collect(),
        variants: vec![],
        sort_keys: None,
    };
    let entries: Vec<E> = (0..3u64)
        .map(|r| {
            e((0..n)
                .map(|i| {
                    if i % 2 == 0 {
                        (NAMES[i], V::U((i as u64) << (8 * r)))
                    } else {
                        (NAMES[i], V::S(-((i as i64) << (8 * r))))
                    }
                })
                .collect())
        })
        .collect();
    let d = def.clone();
    let en = entries.clone();
    let written =
        std::panic::catch_unwind(move || write_pack(&d, &en, &[("all", 0, en.len() as u32)]));
    // Creation may refuse what it cannot represent, but what it writes must be read back.
    if let Ok((_dir, path)) = written {
        let read = std::panic::catch_unwind(move || check_index(&def, &path, "all", &entries));
        assert!(
            read.is_ok(),
            "creation succeeded with {n} properties but the entries are not read back"
        );
    }
}

#[test]
fn h23a_many_properties_up_to_255() {
    for n in [1usize, 100, 254, 255] {
        many_props_case(n);
    }
}

#[test]
fn h23b_more_than_255_properties_refused_or_exact() {
    // The property count is stored on one byte.
    let failed: Vec<usize> = [256usize, 257, 260]
        .into_iter()
        .filter(|n| {
            let n = *n;
            std::panic::catch_unwind(move || many_props_case(n)).is_err()
        })
        .collect();
    assert!(failed.is_empty(), "not read back with {failed:?} properties");
}

// ---------------------------------------------------------------------------------------------
// H24: the same value store used by two entry stores, and by arrays with different prefixes
// ---------------------------------------------------------------------------------------------

#[test]
fn h24_two_entry_stores_sharing_a_value_store() {
    for kind in [SK::Plain, SK::Indexed] {
        let mut creator = creator::DirectoryPackCreator::new(
            jubako::PackId::from(1),
            jubako::VendorId::from([1, 0, 0, 0]),
            Default::default(),
        );
        let vs = match kind {
            SK::Plain => creator::ValueStore::new_plain(None),
            SK::Indexed => creator::ValueStore::new_indexed(),
        };
        creator.add_value_store(vs.clone());
        let mut expected: Vec<Vec<(Vec<u8>, u64)>> = vec![];
        for s in 0..2usize {
            let schema = schema::Schema::<&'static str, &'static str>::new(
                schema::CommonProperties::new(vec![
                    schema::Property::new_array(s * 3, vs.clone(), "a"),
                    schema::Property::new_uint("u"),
                ]),
                vec![],
                None,
            );
            let mut es = Box::new(creator::EntryStore::new(schema, None));
            let mut exp = vec![];
            for i in 0..200u64 {
                let a = format!("shared-value-{}", i % 50).into_bytes();
                es.add_entry(creator::BasicEntry::new_from_schema(
                    &es.schema,
                    None,
                    HashMap::from([
                        ("a", jubako::Value::Array(a.as_slice().into())),
                        ("u", jubako::Value::Unsigned(i + s as u64 * 1000)),
                    ]),
                ));
                exp.push((a, i + s as u64 * 1000));
            }
            let idx = creator.add_entry_store(es);
            creator.create_index(
                if s == 0 { "zero" } else { "one" },
                Default::default(),
                0.into(),
                idx,
                200.into(),
                jubako::EntryIdx::from(0).into(),
            );
            expected.push(exp);
        }
        let dir = tmpdir();
        let path = dir.path().join("p.jbkd");
        let mut file = OpenOptions::new()
            .read(true)
            .write(true)
            .create(true)
            .truncate(true)
            .open(&path)
            .unwrap();
        creator.finalize().unwrap().write(&mut file).unwrap();
        drop(file);
        let pack = open_pack(&path);
        let entry_storage = pack.create_entry_storage();
        let value_storage = pack.create_value_storage();
        for (s, name) in ["zero", "one"].iter().enumerate() {
            let index = pack.get_index_from_name(name).unwrap().unwrap();
            let builder = jubako::reader::builder::AnyBuilder::new(
                index.get_store(&entry_storage).unwrap(),
                value_storage.as_ref(),
            )
            .unwrap();
            assert_eq!(index.count().into_u32(), 200);
            for i in index.count() {
                let entry = index.get_entry(&builder, i).unwrap().unwrap();
                let (a, u) = &expected[s][i.into_u32() as usize];
                assert_eq!(
                    entry.get_value("a").unwrap().unwrap().as_vec().unwrap().to_vec(),
                    *a
                );
                assert_eq!(entry.get_value("u").unwrap().unwrap().as_unsigned(), *u);
            }
        }
    }
}

// ---------------------------------------------------------------------------------------------
// H25: property names: duplicates between common and variant part, long / empty / non ascii
// ---------------------------------------------------------------------------------------------

#[test]
fn h25_property_name_shapes() {
    let def = Def {
        stores: vec![],
        common: vec![P::U(""), P::U("é"), P::S("a name with spaces")],
        variants: vec![],
        sort_keys: None,
    };
    let entries = vec![
        e(vec![
            ("", V::U(1)),
            ("é", V::U(2)),
            ("a name with spaces", V::S(-3)),
        ]),
        e(vec![
            ("", V::U(10)),
            ("é", V::U(20)),
            ("a name with spaces", V::S(-30)),
        ]),
    ];
    roundtrip(&def, &entries);
}

#[test]
fn h26_same_property_name_in_two_variants() {
    // The same name may be declared in several variants with different kinds.
    let def = Def {
        stores: vec![SK::Plain],
        common: vec![P::U("id")],
        variants: vec![
            ("a", vec![P::U("v"), P::U("w")]),
            ("b", vec![P::S("w"), P::A("v", 1, 0)]),
        ],
        sort_keys: None,
    };
    let entries = vec![
        ev("a", vec![("id", V::U(0)), ("v", V::U(70000)), ("w", V::U(1))]),
        ev(
            "b",
            vec![("id", V::U(1)), ("v", V::A(b"hello".to_vec())), ("w", V::S(-70000))],
        ),
        ev("a", vec![("id", V::U(2)), ("v", V::U(3)), ("w", V::U(2))]),
        ev(
            "b",
            vec![("id", V::U(3)), ("v", V::A(b"".to_vec())), ("w", V::S(5))],
        ),
    ];
    roundtrip(&def, &entries);
}

// ---------------------------------------------------------------------------------------------
// H27: lazy (Word) values resolved at write time, with a sorted store
// ---------------------------------------------------------------------------------------------

#[test]
fn h27_word_values_follow_the_sort() {
    let mut creator = creator::DirectoryPackCreator::new(
        jubako::PackId::from(1),
        jubako::VendorId::from([1, 0, 0, 0]),
        Default::default(),
    );
    let vs = creator::ValueStore::new_plain(None);
    creator.add_value_store(vs.clone());
    let schema = schema::Schema::<&'static str, &'static str>::new(
        schema::CommonProperties::new(vec![
            schema::Property::new_array(1, vs.clone(), "k"),
            schema::Property::new_uint("prev"),
        ]),
        vec![],
        Some(vec!["k"]),
    );
    let mut es = Box::new(creator::EntryStore::new(schema, None));
    let n = 400u32;
    let key = |i: u32| format!("{:03}", (i * 7919) % 1000).into_bytes();
    let mut prev: Option<jubako::Bound<jubako::EntryIdx>> = None;
    for i in 0..n {
        let prev_value = match &prev {
            None => jubako::Value::Unsigned(0),
            Some(b) => jubako::Value::UnsignedWord(b.clone().into()),
        };
        let bound = es.add_entry(creator::BasicEntry::new_from_schema(
            &es.schema,
            None,
            HashMap::from([
                ("k", jubako::Value::Array(key(i).as_slice().into())),
                ("prev", prev_value),
            ]),
        ));
        prev = Some(bound);
    }
    let idx = creator.add_entry_store(es);
    creator.create_index(
        "all",
        Default::default(),
        0.into(),
        idx,
        n.into(),
        jubako::EntryIdx::from(0).into(),
    );
    let dir = tmpdir();
    let path = dir.path().join("p.jbkd");
    let mut file = OpenOptions::new()
        .read(true)
        .write(true)
        .create(true)
        .truncate(true)
        .open(&path)
        .unwrap();
    creator.finalize().unwrap().write(&mut file).unwrap();
    drop(file);

    let pack = open_pack(&path);
    let entry_storage = pack.create_entry_storage();
    let value_storage = pack.create_value_storage();
    let index = pack.get_index_from_name("all").unwrap().unwrap();
    let builder = jubako::reader::builder::AnyBuilder::new(
        index.get_store(&entry_storage).unwrap(),
        value_storage.as_ref(),
    )
    .unwrap();
    // read everything
    let mut read: Vec<(Vec<u8>, u64)> = vec![];
    for i in index.count() {
        let entry = index.get_entry(&builder, i).unwrap().unwrap();
        read.push((
            entry.get_value("k").unwrap().unwrap().as_vec().unwrap().to_vec(),
            entry.get_value("prev").unwrap().unwrap().as_unsigned(),
        ));
    }
    // sorted, and same set of keys
    let mut expected_keys: Vec<Vec<u8>> = (0..n).map(key).collect();
    expected_keys.sort();
    assert_eq!(
        read.iter().map(|(k, _)| k.clone()).collect::<Vec<_>>(),
        expected_keys
    );
    // the entry written with key(i) (i>0) must point to the entry holding key(i-1)
    for i in 1..n {
        let (_, prev) = read.iter().find(|(k, _)| *k == key(i)).unwrap();
        assert_eq!(read[*prev as usize].0, key(i - 1), "prev of entry {i}");
    }
}

// ---------------------------------------------------------------------------------------------
// H28: sorted store whose sort key has duplicates
// ---------------------------------------------------------------------------------------------

#[test]
fn h28_sorted_store_with_duplicate_keys() {
    let def = Def {
        stores: vec![SK::Plain],
        common: vec![P::A("k", 0, 0), P::U("u")],
        variants: vec![],
        sort_keys: Some(vec!["k"]),
    };
    let entries = vec![
        e(vec![("k", V::A(b"b".to_vec())), ("u", V::U(1))]),
        e(vec![("k", V::A(b"a".to_vec())), ("u", V::U(2))]),
        e(vec![("k", V::A(b"b".to_vec())), ("u", V::U(3))]),
        e(vec![("k", V::A(b"c".to_vec())), ("u", V::U(4))]),
    ];
    let (_dir, path) = write_pack(&def, &entries, &[("all", 0, 4)]);
    // Read: keys must be a, b, b, c and the multiset of (k, u) must be the one written.
    let pack = open_pack(&path);
    let entry_storage = pack.create_entry_storage();
    let value_storage = pack.create_value_storage();
    let index = pack.get_index_from_name("all").unwrap().unwrap();
    let builder = jubako::reader::builder::AnyBuilder::new(
        index.get_store(&entry_storage).unwrap(),
        value_storage.as_ref(),
    )
    .unwrap();
    let mut read: Vec<(Vec<u8>, u64)> = vec![];
    for i in index.count() {
        let entry = index.get_entry(&builder, i).unwrap().unwrap();
        read.push((
            entry.get_value("k").unwrap().unwrap().as_vec().unwrap().to_vec(),
            entry.get_value("u").unwrap().unwrap().as_unsigned(),
        ));
    }
    assert_eq!(
        read.iter().map(|(k, _)| k.clone()).collect::<Vec<_>>(),
        vec![b"a".to_vec(), b"b".to_vec(), b"b".to_vec(), b"c".to_vec()]
    );
    read.sort();
    assert_eq!(
        read,
        vec![
            (b"a".to_vec(), 2),
            (b"b".to_vec(), 1),
            (b"b".to_vec(), 3),
            (b"c".to_vec(), 4)
        ]
    );
}

// ---------------------------------------------------------------------------------------------
// H29: stores bigger than 16 MiB (4 bytes keys / offsets)
// ---------------------------------------------------------------------------------------------

#[test]
fn h29_store_bigger_than_16mib() {
    for kind in [SK::Plain, SK::Indexed] {
        for fixed in [0usize, 4] {
            let def = Def {
                stores: vec![kind],
                common: vec![P::A("a", fixed, 0)],
                variants: vec![],
                sort_keys: None,
            };
            let mut entries = vec![];
            for i in 0..5u8 {
                let mut a = vec![i; 4 * 1024 * 1024 + i as usize];
                a[10] = 0xFF - i;
                entries.push(e(vec![("a", V::A(a))]));
            }
            entries.push(e(vec![("a", V::A(vec![0xFF, 0xFF, 0xFF, 0xFF, 0xFF, 0xFE]))]));
            entries.push(e(vec![("a", V::A(vec![]))]));
            roundtrip(&def, &entries);
        }
    }
}

// ---------------------------------------------------------------------------------------------
// H30: more value stores than a store id can number
// ---------------------------------------------------------------------------------------------

fn many_stores_case(count: usize) {
    let def = Def {
        stores: (0..count)
            .map(|i| if i % 2 == 0 { SK::Plain } else { SK::Indexed })
            .collect(),
        common: vec![P::A("first", 0, 0), P::A("last", 0, count - 1)],
        variants: vec![],
        sort_keys: None,
    };
    let entries = vec![
        e(vec![
            ("first", V::A(b"in the first store".to_vec())),
            ("last", V::A(b"in the last store".to_vec())),
        ]),
        e(vec![
            ("first", V::A(b"1".to_vec())),
            ("last", V::A(b"22".to_vec())),
        ]),
    ];
    let d = def.clone();
    let en = entries.clone();
    let written =
        std::panic::catch_unwind(move || write_pack(&d, &en, &[("all", 0, en.len() as u32)]));
    // Creation may refuse what it cannot represent, but what it writes must be read back.
    if let Ok((_dir, path)) = written {
        let read = std::panic::catch_unwind(move || check_index(&def, &path, "all", &entries));
        assert!(
            read.is_ok(),
            "creation succeeded with {count} value stores but the entries are not read back"
        );
    } else {
        assert!(count > 255, "creation failed with {count} stores");
    }
}

#[test]
fn h30a_255_value_stores() {
    many_stores_case(255);
}

#[test]
fn h30b_256_value_stores_refused_or_exact() {
    many_stores_case(256);
}

#[test]
fn h30c_257_value_stores_refused_or_exact() {
    many_stores_case(257);
}

// ---------------------------------------------------------------------------------------------
// H31: integers sorted store (sort on unsigned then signed), values stay attached
// ---------------------------------------------------------------------------------------------

#[test]
fn h31_sorted_on_integers() {
    let def = Def {
        stores: vec![],
        common: vec![P::U("u"), P::S("s")],
        variants: vec![],
        sort_keys: Some(vec!["s", "u"]),
    };
    let mut entries: Vec<E> = (0..300i64)
        .map(|i| {
            e(vec![
                ("u", V::U((i as u64 * 7919) % 1000)),
                ("s", V::S(((i * 31) % 17) - 8)),
            ])
        })
        .collect();
    // make (s, u) unique
    entries.sort_by_key(|en| match (&en.values[1].1, &en.values[0].1) {
        (V::S(s), V::U(u)) => (*s, *u),
        _ => unreachable!(),
    });
    entries.dedup_by_key(|en| match (&en.values[1].1, &en.values[0].1) {
        (V::S(s), V::U(u)) => (*s, *u),
        _ => unreachable!(),
    });
    let sorted = entries.clone();
    entries.reverse();
    let (_dir, path) = write_pack(&def, &entries, &[("all", 0, entries.len() as u32)]);
    check_index(&def, &path, "all", &sorted);
}

// ---------------------------------------------------------------------------------------------
// H32: every packaging (BasicCreator: one file, two files, no concat) and compression, read
// through Container
// ---------------------------------------------------------------------------------------------

type TestEntryStore = creator::EntryStore<
    &'static str,
    &'static str,
    creator::BasicEntry<&'static str, &'static str>,
>;

struct Wrap {
    stores: Vec<creator::StoreHandle>,
    entry_store: Box<TestEntryStore>,
    windows: Vec<(&'static str, u32, u32)>,
}

impl creator::EntryStoreTrait for Wrap {
    fn finalize(self: Box<Self>, directory_pack: &mut creator::DirectoryPackCreator) {
        for s in self.stores {
            directory_pack.add_value_store(s);
        }
        let id = directory_pack.add_entry_store(self.entry_store);
        for (name, offset, count) in self.windows {
            directory_pack.create_index(
                name,
                Default::default(),
                0.into(),
                id,
                count.into(),
                jubako::EntryIdx::from(offset).into(),
            );
        }
    }
}

fn check_container_index(
    def: &Def,
    container: &jubako::reader::Container,
    index_name: &str,
    expected: &[E],
    contents: &HashMap<(u16, u32), Vec<u8>>,
) {
    use std::io::Read;
    let index = container.get_index_for_name(index_name).unwrap().unwrap();
    let builder = jubako::reader::builder::AnyBuilder::new(
        index.get_store(container.get_entry_storage()).unwrap(),
        container.get_value_storage().as_ref(),
    )
    .unwrap();
    assert_eq!(index.count().into_u32() as usize, expected.len());
    for (i, exp) in expected.iter().enumerate() {
        let entry = index
            .get_entry(&builder, jubako::EntryIdx::from(i as u32))
            .unwrap()
            .unwrap();
        for p in props_of(def, exp.variant) {
            let name = name_of(p);
            let (_, exp_v) = exp.values.iter().find(|(n, _)| *n == name).unwrap();
            let raw = entry.get_value(name).unwrap().unwrap();
            let got = match raw.get().unwrap() {
                jubako::Value::Unsigned(v) => V::U(v),
                jubako::Value::Signed(v) => V::S(v),
                jubako::Value::Content(c) => {
                    // the content address must lead to the content it was created for
                    let bytes = container
                        .get_bytes(c)
                        .unwrap()
                        .and_then(|m| m.transpose())
                        .expect("content must be found")
                        .unwrap();
                    let mut data = vec![];
                    bytes.stream().read_to_end(&mut data).unwrap();
                    assert_eq!(
                        &data,
                        &contents[&(c.pack_id.into_u16(), c.content_id.into_u32())],
                        "entry {i} content"
                    );
                    V::C(c.pack_id.into_u16(), c.content_id.into_u32())
                }
                jubako::Value::Array(a) => V::A(a.to_vec()),
                _ => panic!("unexpected value kind"),
            };
            assert_eq!(&got, exp_v, "entry {i} of index {index_name}: property {name}");
        }
    }
    assert!(index
        .get_entry(&builder, jubako::EntryIdx::from(expected.len() as u32))
        .unwrap()
        .is_none());
}

#[test]
fn h32_every_packaging_and_compression() {
    let compressions = vec![
        creator::Compression::None,
        #[cfg(feature = "zstd")]
        creator::Compression::zstd(),
    ];
    for m in 0..3 {
        for compression in &compressions {
            let dir = tmpdir();
            let out = jubako::Utf8PathBuf::from_path_buf(dir.path().join(format!("out{m}.jbk")))
                .unwrap();
            let mut basic = creator::BasicCreator::new(
                &out,
                match m {
                    0 => creator::ConcatMode::OneFile,
                    1 => creator::ConcatMode::TwoFiles,
                    _ => creator::ConcatMode::NoConcat,
                },
                jubako::VendorId::from([1, 2, 3, 4]),
                *compression,
                Arc::new(()),
            )
            .unwrap();
            let def = Def {
                stores: vec![SK::Plain, SK::Indexed],
                common: vec![P::A("name", 2, 0), P::S("s")],
                variants: vec![
                    ("file", vec![P::C("content"), P::A("mime", 0, 1)]),
                    ("dir", vec![P::U("count")]),
                ],
                sort_keys: None,
            };
            let mut contents = HashMap::new();
            let mut entries = vec![];
            for i in 0..300u32 {
                if i % 3 == 0 {
                    entries.push(ev(
                        "dir",
                        vec![
                            ("name", V::A(format!("dir{i}").into_bytes())),
                            ("s", V::S(-(i as i64) * 300)),
                            ("count", V::U(i as u64 * 1000)),
                        ],
                    ));
                } else {
                    let data = format!("content of file {i} ").repeat(i as usize % 50).into_bytes();
                    let addr = basic
                        .add_content(
                            Box::new(std::io::Cursor::new(data.clone())),
                            Default::default(),
                        )
                        .unwrap();
                    contents.insert((addr.pack_id.into_u16(), addr.content_id.into_u32()), data);
                    entries.push(ev(
                        "file",
                        vec![
                            ("name", V::A(format!("f{i}").into_bytes())),
                            ("s", V::S(i as i64)),
                            (
                                "content",
                                V::C(addr.pack_id.into_u16(), addr.content_id.into_u32()),
                            ),
                            ("mime", V::A(format!("mime/{}", i % 7).into_bytes())),
                        ],
                    ));
                }
            }
            let stores: Vec<creator::StoreHandle> = def
                .stores
                .iter()
                .map(|k| match k {
                    SK::Plain => creator::ValueStore::new_plain(None),
                    SK::Indexed => creator::ValueStore::new_indexed(),
                })
                .collect();
            let schema = schema::Schema::<&'static str, &'static str>::new(
                schema::CommonProperties::new(
                    def.common.iter().map(|p| mk_prop(p, &stores)).collect(),
                ),
                def.variants
                    .iter()
                    .map(|(n, ps)| {
                        (
                            *n,
                            schema::VariantProperties::new(
                                ps.iter().map(|p| mk_prop(p, &stores)).collect(),
                            ),
                        )
                    })
                    .collect(),
                None,
            );
            let mut entry_store = Box::new(creator::EntryStore::new(schema, None));
            for entry in &entries {
                let values: HashMap<&'static str, jubako::Value> = entry
                    .values
                    .iter()
                    .map(|(n, v)| (*n, mk_value(v)))
                    .collect();
                entry_store.add_entry(creator::BasicEntry::new_from_schema(
                    &entry_store.schema,
                    entry.variant,
                    values,
                ));
            }
            let wrap = Box::new(Wrap {
                stores,
                entry_store,
                windows: vec![("all", 0, 300), ("mid", 100, 50)],
            });
            basic.finalize(wrap, vec![]).unwrap();

            let container = jubako::reader::Container::new(&out).unwrap();
            check_container_index(&def, &container, "all", &entries, &contents);
            check_container_index(&def, &container, "mid", &entries[100..150], &contents);
        }
    }
}

// ---------------------------------------------------------------------------------------------
// H33: the same pack read from several threads at once
// ---------------------------------------------------------------------------------------------

#[test]
fn h33_concurrent_readers() {
    let def = variant_def();
    let mut entries = vec![];
    for i in 0..400u64 {
        entries.push(ev(
            "file",
            vec![
                ("name", V::A(format!("file{i}").into_bytes())),
                ("id", V::U(i)),
                ("content", V::C((i % 300) as u16, (i * 1000) as u32)),
                ("size", V::U(i << 20)),
                ("mtime", V::S(-(i as i64) * 100000)),
            ],
        ));
        entries.push(ev(
            "link",
            vec![
                ("name", V::A(format!("l{i}").into_bytes())),
                ("id", V::U(i + 2000)),
                ("target", V::A(format!("../target/{}", i % 40).into_bytes())),
            ],
        ));
    }
    let (_dir, path) = write_pack(&def, &entries, &[("all", 0, entries.len() as u32)]);
    std::thread::scope(|scope| {
        for _ in 0..8 {
            scope.spawn(|| check_index(&def, &path, "all", &entries));
        }
    });
    // and sharing the same DirectoryPack
    let pack = open_pack(&path);
    std::thread::scope(|scope| {
        for t in 0..8u32 {
            let pack = Arc::clone(&pack);
            let entries = &entries;
            scope.spawn(move || {
                let entry_storage = pack.create_entry_storage();
                let value_storage = pack.create_value_storage();
                let index = pack.get_index_from_name("all").unwrap().unwrap();
                let builder = jubako::reader::builder::AnyBuilder::new(
                    index.get_store(&entry_storage).unwrap(),
                    value_storage.as_ref(),
                )
                .unwrap();
                for i in (t..entries.len() as u32).step_by(3) {
                    let entry = index
                        .get_entry(&builder, jubako::EntryIdx::from(i))
                        .unwrap()
                        .unwrap();
                    let exp = &entries[i as usize];
                    let name = entry.get_value("name").unwrap().unwrap().as_vec().unwrap();
                    assert_eq!(V::A(name.to_vec()), exp.values[0].1);
                    let id = entry.get_value("id").unwrap().unwrap().as_unsigned();
                    assert_eq!(V::U(id), exp.values[1].1);
                }
            });
        }
    });
}

// ---------------------------------------------------------------------------------------------
// H34: typed builders (the other read path) and VariantIdBuilder
// ---------------------------------------------------------------------------------------------

#[derive(Clone, Copy, Debug, PartialEq)]
enum Kind {
    File,
    Dir,
}

impl TryFrom<&str> for Kind {
    type Error = ();
    fn try_from(v: &str) -> Result<Self, ()> {
        match v {
            "file" => Ok(Kind::File),
            "dir" => Ok(Kind::Dir),
            _ => Err(()),
        }
    }
}

#[test]
fn h34_typed_builders() {
    use jubako::reader::builder::{
        ArrayProperty, ContentProperty, IntProperty, PropertyBuilderTrait, SignedProperty,
    };
    let def = variant_def();
    let mut entries = vec![];
    for i in 0..100u64 {
        entries.push(ev(
            "dir",
            vec![
                ("name", V::A(format!("dir{i}").into_bytes())),
                ("id", V::U(i + 1000)),
                ("first", V::U(i << 33)),
                ("count", V::U(i * 3)),
            ],
        ));
        entries.push(ev(
            "file",
            vec![
                ("name", V::A(format!("file{i}").into_bytes())),
                ("id", V::U(i)),
                ("content", V::C((i * 700) as u16, (i * 100000) as u32)),
                ("size", V::U(i << 20)),
                ("mtime", V::S(-(i as i64) << 36)),
            ],
        ));
        entries.push(ev(
            "empty",
            vec![("name", V::A(vec![])), ("id", V::U(i + 3000))],
        ));
    }
    let (_dir, path) = write_pack(&def, &entries, &[("all", 0, entries.len() as u32)]);
    let pack = open_pack(&path);
    let entry_storage = pack.create_entry_storage();
    let value_storage = pack.create_value_storage();
    let index = pack.get_index_from_name("all").unwrap().unwrap();
    let store = index.get_store(&entry_storage).unwrap();
    let layout = store.layout();
    assert_eq!(layout.variant_len(), 4);
    let vs = value_storage.as_ref();
    let variant_id = layout.variant_id_builder::<Kind>().unwrap();
    let name: ArrayProperty = layout.common.get("name").unwrap().as_builder(vs).unwrap().unwrap();
    let id: IntProperty = layout.common.get("id").unwrap().as_builder(vs).unwrap().unwrap();
    let file = layout.get_variant("file").unwrap();
    let dir = layout.get_variant("dir").unwrap();
    let content: ContentProperty = file.get("content").unwrap().as_builder(vs).unwrap().unwrap();
    let size: IntProperty = file.get("size").unwrap().as_builder(vs).unwrap().unwrap();
    let mtime: SignedProperty = file.get("mtime").unwrap().as_builder(vs).unwrap().unwrap();
    let first: IntProperty = dir.get("first").unwrap().as_builder(vs).unwrap().unwrap();
    let count: IntProperty = dir.get("count").unwrap().as_builder(vs).unwrap().unwrap();
    // a signed property is not an unsigned one
    assert!(file
        .get("mtime")
        .unwrap()
        .as_builder::<IntProperty, _>(vs)
        .unwrap()
        .is_none());
    for (i, exp) in entries.iter().enumerate() {
        let reader = store
            .get_entry_reader(jubako::EntryIdx::from(i as u32))
            .unwrap();
        let get = |n: &str| exp.values.iter().find(|(k, _)| *k == n).unwrap().1.clone();
        let mut v = jubako::SmallBytes::new();
        name.create(&reader).unwrap().resolve_to_vec(&mut v).unwrap();
        assert_eq!(V::A(v.to_vec()), get("name"));
        assert_eq!(V::U(id.create(&reader).unwrap()), get("id"));
        match variant_id.create(&reader).unwrap() {
            Some(Kind::File) => {
                assert_eq!(exp.variant, Some("file"));
                let c = content.create(&reader).unwrap();
                assert_eq!(
                    V::C(c.pack_id.into_u16(), c.content_id.into_u32()),
                    get("content")
                );
                assert_eq!(V::U(size.create(&reader).unwrap()), get("size"));
                assert_eq!(V::S(mtime.create(&reader).unwrap()), get("mtime"));
            }
            Some(Kind::Dir) => {
                assert_eq!(exp.variant, Some("dir"));
                assert_eq!(V::U(first.create(&reader).unwrap()), get("first"));
                assert_eq!(V::U(count.create(&reader).unwrap()), get("count"));
            }
            None => assert_eq!(exp.variant, Some("empty")),
        }
    }
}

// ---------------------------------------------------------------------------------------------
// H35: number of variants, and property count spread over variants
// ---------------------------------------------------------------------------------------------

fn many_variants_case(nb_variants: usize, props_per_variant: usize) {
    let def = Def {
        stores: vec![],
        common: vec![P::U("id")],
        variants: (0..nb_variants)
            .map(|v| {
                (
                    NAMES[v],
                    (0..props_per_variant)
                        .map(|p| P::U(NAMES[(v * props_per_variant + p) % 260]))
                        .collect(),
                )
            })
            .collect(),
        sort_keys: None,
    };
    let mut entries = vec![];
    for round in 0..2u64 {
        for v in 0..nb_variants {
            let mut values = vec![("id", V::U(v as u64 + round * 1000))];
            for p in 0..props_per_variant {
                values.push((
                    NAMES[(v * props_per_variant + p) % 260],
                    V::U((v * 1000 + p) as u64 + round * 100000),
                ));
            }
            entries.push(ev(NAMES[v], values));
        }
    }
    let d = def.clone();
    let en = entries.clone();
    let written =
        std::panic::catch_unwind(move || write_pack(&d, &en, &[("all", 0, en.len() as u32)]));
    // Creation may refuse what it cannot represent, but what it writes must be read back.
    if let Ok((_dir, path)) = written {
        let read = std::panic::catch_unwind(move || check_index(&def, &path, "all", &entries));
        assert!(
            read.is_ok(),
            "creation succeeded with {nb_variants} variants of {props_per_variant} properties but the entries are not read back"
        );
    }
}

#[test]
fn h35a_many_variants_within_limits() {
    many_variants_case(100, 1); // 1 + 100 * 2 = 201 properties
    many_variants_case(3, 80); // 1 + 3 * 81 = 244 properties
}

#[test]
fn h35b_property_count_over_255_through_variants_refused_or_exact() {
    // Passes in a debug build (arithmetic overflow panics: creation fails), fails with --release.
    many_variants_case(4, 64); // 1 + 4 * 65 = 261 properties
    many_variants_case(130, 1); // 1 + 130 * 2 = 261 properties
}

#[test]
fn h35c_more_than_255_variants_refused_or_exact() {
    many_variants_case(256, 0);
    many_variants_case(257, 0);
}
