// Bug hunt for property C10:
//   "A container reads the same however its packs are packaged."
//
// Every test PASSES when the property holds and FAILS when it is violated.
// Only the public API of jubako, std and tempfile are used.

use jubako as jbk;
use jubako::creator::{schema, ConcatMode, EntryStoreTrait};
use jubako::reader::builder::AnyBuilder;
use jubako::reader::{EntryTrait, MayMissPack, Range};
use std::collections::HashMap;
use std::io::Read;
use std::path::{Path, PathBuf};
use std::sync::Arc;

const VENDOR_ID: jbk::VendorId = jbk::VendorId::new([7, 7, 7, 7]);
const INDEX: &str = "hunt index";

type EntryType = jbk::creator::BasicEntry<&'static str, &'static str>;
type CEntryStore = jbk::creator::EntryStore<&'static str, &'static str, EntryType>;

struct Store {
    value_store: jbk::creator::StoreHandle,
    entry_store: Box<CEntryStore>,
    count: u32,
}

impl Store {
    fn new() -> Self {
        let value_store = jbk::creator::ValueStore::new_plain(None);
        let schema = schema::Schema::new(
            schema::CommonProperties::new(vec![
                schema::Property::new_array(0, value_store.clone(), "name"),
                schema::Property::new_uint("num"),
                schema::Property::new_content_address("content"),
            ]),
            vec![],
            None,
        );
        Self {
            value_store,
            entry_store: Box::new(jbk::creator::EntryStore::new(schema, None)),
            count: 0,
        }
    }

    fn add(&mut self, name: &str, num: u64, content: jbk::ContentAddress) {
        let entry = EntryType::new_from_schema(
            &self.entry_store.schema,
            None,
            HashMap::from([
                ("name", jbk::Value::Array(name.as_bytes().into())),
                ("num", jbk::Value::Unsigned(num)),
                ("content", jbk::Value::Content(content)),
            ]),
        );
        self.entry_store.add_entry(entry);
        self.count += 1;
    }
}

impl EntryStoreTrait for Store {
    fn finalize(self: Box<Self>, directory_pack: &mut jbk::creator::DirectoryPackCreator) {
        directory_pack.add_value_store(self.value_store);
        let id = directory_pack.add_entry_store(self.entry_store);
        directory_pack.create_index(
            INDEX,
            Default::default(),
            0.into(),
            id,
            self.count.into(),
            jbk::EntryIdx::from(0).into(),
        );
    }
}

/// What a reader sees of a container.
#[derive(Debug, PartialEq, Eq, Clone)]
struct Seen {
    pack_count: u16,
    check: bool,
    entries: Vec<(String, u64, Result<Vec<u8>, String>)>,
}

fn s(p: &Path) -> &str {
    p.to_str().unwrap()
}

/// The logical content of the containers we build: entry `i` is named `name-i`,
/// carries the number `i * 1000 + 1` and a blob whose bytes depend on `i`.
fn blob(i: usize) -> Vec<u8> {
    let len = match i % 5 {
        0 => 0,
        1 => 1,
        2 => 255,
        3 => 70_000,
        _ => 4096 + i,
    };
    (0..len).map(|b| ((b * 31 + i * 7) % 251) as u8).collect()
}

fn expected(nb_entries: usize, pack_count: u16) -> Seen {
    Seen {
        pack_count,
        check: true,
        entries: (0..nb_entries)
            .map(|i| (format!("name-{i}"), (i * 1000 + 1) as u64, Ok(blob(i))))
            .collect(),
    }
}

struct Extra {
    path: PathBuf,
    pack_id: u16,
}

/// Build the container. Entries are spread round robin on the main content pack and
/// the extra content packs.
fn build(
    out: &Path,
    mode: ConcatMode,
    compression: jbk::creator::Compression,
    nb_entries: usize,
    extras: &[Extra],
) {
    let mut creator =
        jbk::creator::BasicCreator::new(s(out), mode, VENDOR_ID, compression, Arc::new(()))
            .unwrap();
    let mut extra_creators: Vec<jbk::creator::ContentPackCreator<dyn jbk::creator::PackRecipient>> =
        extras
            .iter()
            .map(|e| {
                let file: Box<dyn jbk::creator::PackRecipient> =
                    jbk::creator::AtomicOutFile::new(s(&e.path)).unwrap();
                jbk::creator::ContentPackCreator::new_from_output(
                    file,
                    jbk::PackId::from(e.pack_id),
                    VENDOR_ID,
                    Default::default(),
                    compression,
                )
                .unwrap()
            })
            .collect();
    let mut store = Box::new(Store::new());
    for i in 0..nb_entries {
        let reader = Box::new(std::io::Cursor::new(blob(i)));
        let slot = i % (extras.len() + 1);
        let address = if slot == 0 {
            creator.add_content(reader, Default::default()).unwrap()
        } else {
            extra_creators[slot - 1]
                .add_content(reader, Default::default())
                .unwrap()
        };
        store.add(&format!("name-{i}"), (i * 1000 + 1) as u64, address);
    }
    creator.finalize(store, extra_creators).unwrap();
}

fn see(path: &Path) -> Result<Seen, String> {
    let path = path.to_path_buf();
    match std::panic::catch_unwind(move || {
        let container = jbk::reader::Container::new(&path).map_err(|e| format!("open: {e}"))?;
        see_container(&container)
    }) {
        Ok(r) => r,
        Err(p) => Err(format!(
            "PANIC: {}",
            p.downcast_ref::<String>()
                .cloned()
                .or_else(|| p.downcast_ref::<&str>().map(|s| s.to_string()))
                .unwrap_or_default()
        )),
    }
}

fn see_container(container: &jbk::reader::Container) -> Result<Seen, String> {
    let entries = see_container_entries(container)?;
    Ok(Seen {
        pack_count: container.pack_count().into_u16(),
        check: container.check().map_err(|e| format!("check: {e}"))?,
        entries,
    })
}

fn see_container_entries(
    container: &jbk::reader::Container,
) -> Result<Vec<(String, u64, Result<Vec<u8>, String>)>, String> {
    let index = container
        .get_index_for_name(INDEX)
        .map_err(|e| format!("index: {e}"))?
        .ok_or("no index")?;
    let builder = AnyBuilder::new(
        index
            .get_store(container.get_entry_storage())
            .map_err(|e| format!("store: {e}"))?,
        container.get_value_storage().as_ref(),
    )
    .map_err(|e| format!("builder: {e}"))?;
    let mut entries = vec![];
    for i in index.count() {
        let entry = index
            .get_entry(&builder, i)
            .map_err(|e| format!("entry: {e}"))?
            .ok_or("no entry")?;
        let name = entry
            .get_value("name")
            .map_err(|e| format!("name: {e}"))?
            .unwrap()
            .as_vec()
            .map_err(|e| format!("name: {e}"))?;
        let num = entry
            .get_value("num")
            .map_err(|e| format!("num: {e}"))?
            .unwrap()
            .as_unsigned();
        let address = entry
            .get_value("content")
            .map_err(|e| format!("content: {e}"))?
            .unwrap()
            .as_content();
        let bytes = match container.get_bytes(address) {
            Err(e) => Err(format!("get_bytes: {e}")),
            Ok(None) => Err("unknown pack".to_string()),
            Ok(Some(MayMissPack::MISSING(info))) => Err(format!(
                "pack missing (location {:?})",
                info.pack_location.as_str()
            )),
            Ok(Some(MayMissPack::FOUND(None))) => Err("unknown content".to_string()),
            Ok(Some(MayMissPack::FOUND(Some(region)))) => {
                let mut v = vec![];
                region
                    .stream()
                    .read_to_end(&mut v)
                    .map(|_| v)
                    .map_err(|e| format!("read: {e}"))
            }
        };
        entries.push((String::from_utf8(name.to_vec()).unwrap(), num, bytes));
    }
    Ok(entries)
}

fn compressions() -> Vec<jbk::creator::Compression> {
    vec![
        jbk::creator::Compression::None,
        #[cfg(feature = "lz4")]
        jbk::creator::Compression::lz4(),
        #[cfg(feature = "lzma")]
        jbk::creator::Compression::lzma(),
        #[cfg(feature = "zstd")]
        jbk::creator::Compression::zstd(),
    ]
}

fn permutations<T: Clone>(items: &[T]) -> Vec<Vec<T>> {
    if items.len() <= 1 {
        return vec![items.to_vec()];
    }
    let mut out = vec![];
    for i in 0..items.len() {
        let mut rest = items.to_vec();
        let head = rest.remove(i);
        for mut p in permutations(&rest) {
            p.insert(0, head.clone());
            out.push(p);
        }
    }
    out
}

fn files_of(dir: &Path) -> Vec<PathBuf> {
    let mut v: Vec<PathBuf> = std::fs::read_dir(dir)
        .unwrap()
        .map(|e| e.unwrap().path())
        .filter(|p| p.is_file())
        .collect();
    v.sort();
    v
}

fn with_prefix(src: &Path, dst: &Path, prefix: &[u8]) {
    let mut data = prefix.to_vec();
    data.extend(std::fs::read(src).unwrap());
    std::fs::write(dst, data).unwrap();
}

// ---------------------------------------------------------------------------------------------
// H1: the three packagings of the high level creator read the same, with every compression,
//     for an empty container, one entry, and a few entries.
// ---------------------------------------------------------------------------------------------
#[test]
fn h01_three_packagings_read_the_same() {
    for compression in compressions() {
        for nb in [0usize, 1, 9] {
            let mut seen = vec![];
            for (mode, name) in [
                (ConcatMode::OneFile, "one"),
                (ConcatMode::TwoFiles, "two"),
                (ConcatMode::NoConcat, "three"),
            ] {
                let dir = tempfile::tempdir().unwrap();
                let out = dir.path().join(format!("{name}.jbk"));
                build(&out, mode, compression, nb, &[]);
                let nb_files = files_of(dir.path()).len();
                assert_eq!(
                    nb_files,
                    match mode {
                        ConcatMode::OneFile => 1,
                        ConcatMode::TwoFiles => 2,
                        ConcatMode::NoConcat => 3,
                    }
                );
                seen.push(see(&out));
            }
            for sn in &seen {
                assert_eq!(sn, &Ok(expected(nb, 2)), "{compression:?} {nb}");
            }
        }
    }
}

// ---------------------------------------------------------------------------------------------
// H2: the loose files of NoConcat and TwoFiles, concatenated in every order, read the same.
//     The concatenated file is read from another directory, so that the packs can only be found
//     by identity inside the file at hand.
// ---------------------------------------------------------------------------------------------
#[test]
fn h02_concat_in_any_order() {
    for (mode, nb_files) in [(ConcatMode::NoConcat, 3), (ConcatMode::TwoFiles, 2)] {
        let dir = tempfile::tempdir().unwrap();
        let out = dir.path().join("c.jbk");
        build(&out, mode, jbk::creator::Compression::None, 7, &[]);
        let files = files_of(dir.path());
        assert_eq!(files.len(), nb_files);
        for (i, order) in permutations(&files).into_iter().enumerate() {
            let other = tempfile::tempdir().unwrap();
            let cat = other.path().join(format!("cat{i}.jbk"));
            jbk::tools::concat(&order, s(&cat)).unwrap();
            assert_eq!(see(&cat), Ok(expected(7, 2)), "order {order:?}");
        }
    }
}

// ---------------------------------------------------------------------------------------------
// H3: a one file container embedded at the end of another file, for many prefix lengths and
//     prefix contents.
// ---------------------------------------------------------------------------------------------
#[test]
fn h03_prefix_before_one_file_container() {
    let dir = tempfile::tempdir().unwrap();
    let out = dir.path().join("c.jbk");
    build(
        &out,
        ConcatMode::OneFile,
        jbk::creator::Compression::None,
        6,
        &[],
    );
    let reference = see(&out);
    assert_eq!(reference, Ok(expected(6, 2)));
    let mut prefixes: Vec<Vec<u8>> = vec![];
    for len in [
        0usize, 1, 2, 3, 4, 59, 60, 63, 64, 65, 127, 128, 255, 256, 4095, 4096, 65535, 65536,
        70_001,
    ] {
        prefixes.push((0..len).map(|i| (i * 13 + 5) as u8).collect());
        prefixes.push(vec![0u8; len]);
        prefixes.push(vec![0xFFu8; len]);
    }
    prefixes.push(b"#!/bin/sh\nexec something \"$0\"\n".to_vec());
    prefixes.push(b"\x7fELF\x02\x01\x01\x00".repeat(100));
    for (i, prefix) in prefixes.iter().enumerate() {
        let emb = dir.path().join(format!("emb{i}.bin"));
        with_prefix(&out, &emb, prefix);
        assert_eq!(
            see(&emb),
            reference,
            "prefix #{i} of {} bytes",
            prefix.len()
        );
    }
}

fn short(r: &Result<Seen, String>) -> String {
    match r {
        Ok(seen) => format!(
            "Ok(pack_count {}, check {}, {} entries, {} unreadable)",
            seen.pack_count,
            seen.check,
            seen.entries.len(),
            seen.entries.iter().filter(|e| e.2.is_err()).count()
        ),
        Err(e) => format!("Err({})", e.lines().next().unwrap_or("")),
    }
}

/// Embed `out` behind every prefix and return the prefixes for which the container does not read
/// as `reference`.
fn failing_prefixes(
    out: &Path,
    reference: &Result<Seen, String>,
    prefixes: &[(&str, Vec<u8>)],
) -> Vec<String> {
    let mut failures = vec![];
    for (what, prefix) in prefixes.iter() {
        let emb = out.parent().unwrap().join("emb.bin");
        with_prefix(out, &emb, prefix);
        let seen = see(&emb);
        if &seen != reference {
            failures.push(format!("{what}: {}", short(&seen)));
        }
    }
    failures
}

// ---------------------------------------------------------------------------------------------
// H4: prefixes that look like the beginning of a Jubako pack of the current version, without
//     being one (the crc of the header block cannot match).
// ---------------------------------------------------------------------------------------------
#[test]
fn h04_prefix_looking_like_a_current_pack() {
    let dir = tempfile::tempdir().unwrap();
    let out = dir.path().join("c.jbk");
    build(
        &out,
        ConcatMode::OneFile,
        jbk::creator::Compression::None,
        3,
        &[],
    );
    let reference = see(&out);
    assert_eq!(reference, Ok(expected(3, 2)));
    let own = std::fs::read(&out).unwrap();
    let mut prefixes: Vec<(&str, Vec<u8>)> = vec![];
    prefixes.push(("jb", b"jb".to_vec()));
    prefixes.push(("jbk", b"jbk".to_vec()));
    prefixes.push(("jbkX (not a pack kind)", b"jbkX".to_vec()));
    prefixes.push(("jbkX, zeroes", [b"jbkX".to_vec(), vec![0; 200]].concat()));
    // the first 64 bytes of the container with one byte changed (crc does not match)
    let mut damaged = own[..64].to_vec();
    damaged[20] ^= 1;
    prefixes.push(("damaged header", damaged));
    // the first 63 bytes of the container: the header of the real container follows
    prefixes.push(("63 bytes of header", own[..63].to_vec()));
    // a right magic and version, crc wrong
    let mut h = b"jbkm".to_vec();
    h.extend([0, 0, 0, 0, 0, 2]);
    h.extend(vec![0x55; 54]);
    prefixes.push(("right version wrong crc", h));
    let failures = failing_prefixes(&out, &reference, &prefixes);
    assert!(failures.is_empty(), "{failures:#?}");
}

// ---------------------------------------------------------------------------------------------
// H5: the other file starts with the four bytes of a pack magic (`jbkC`, `jbkm`, `jbkd`, `jbkc`)
//     but is not a pack of this version: a text, an archive of another version of the format...
//     The container embedded at its end has a valid tail header, the property says it is read.
// ---------------------------------------------------------------------------------------------
#[test]
fn h05_prefix_starting_with_a_pack_magic() {
    let dir = tempfile::tempdir().unwrap();
    let out = dir.path().join("c.jbk");
    build(
        &out,
        ConcatMode::OneFile,
        jbk::creator::Compression::None,
        3,
        &[],
    );
    let reference = see(&out);
    assert_eq!(reference, Ok(expected(3, 2)));
    let own = std::fs::read(&out).unwrap();
    let mut prefixes: Vec<(&str, Vec<u8>)> = vec![];
    prefixes.push(("four bytes jbkC", b"jbkC".to_vec()));
    prefixes.push(("jbkC, zeroes", [b"jbkC".to_vec(), vec![0; 200]].concat()));
    prefixes.push((
        "text starting with jbkc",
        b"jbkc is the magic of content packs in the Jubako format, see the specification.\n"
            .to_vec(),
    ));
    // A pack written by the previous version of the format (0.1), whole, before the container.
    let mut old = own.clone();
    old[9] = 1;
    prefixes.push(("a 0.1 pack", old));
    let failures = failing_prefixes(&out, &reference, &prefixes);
    assert!(failures.is_empty(), "{failures:#?}");
}

fn all_modes() -> [(ConcatMode, &'static str); 3] {
    [
        (ConcatMode::OneFile, "OneFile"),
        (ConcatMode::TwoFiles, "TwoFiles"),
        (ConcatMode::NoConcat, "NoConcat"),
    ]
}

// ---------------------------------------------------------------------------------------------
// H6: extra content packs (ids 2, 3 and 300), in the directory of the container, in a sub
//     directory and in a sibling directory, with the three packagings.
// ---------------------------------------------------------------------------------------------
#[test]
fn h06_extra_content_packs() {
    for (mode, name) in all_modes() {
        let root = tempfile::tempdir().unwrap();
        let dir = root.path().join("main");
        std::fs::create_dir_all(dir.join("sub")).unwrap();
        std::fs::create_dir_all(root.path().join("sibling")).unwrap();
        let out = dir.join("c.jbk");
        let extras = [
            Extra {
                path: dir.join("extra2.jbkc"),
                pack_id: 2,
            },
            Extra {
                path: dir.join("sub").join("extra3.jbkc"),
                pack_id: 3,
            },
            Extra {
                path: root.path().join("sibling").join("extra300.jbkc"),
                pack_id: 300,
            },
        ];
        build(&out, mode, jbk::creator::Compression::None, 13, &extras);
        assert_eq!(see(&out), Ok(expected(13, 5)), "{name}");
    }
}

// ---------------------------------------------------------------------------------------------
// H7: the whole tree is moved: recorded locations are relative to the manifest.
// ---------------------------------------------------------------------------------------------
#[test]
fn h07_moved_tree() {
    for (mode, name) in all_modes() {
        let root = tempfile::tempdir().unwrap();
        let dir = root.path().join("before");
        std::fs::create_dir_all(dir.join("sub")).unwrap();
        let out = dir.join("c.jbk");
        let extras = [Extra {
            path: dir.join("sub").join("extra2.jbkc"),
            pack_id: 2,
        }];
        build(&out, mode, jbk::creator::Compression::None, 6, &extras);
        let after = root.path().join("after");
        std::fs::rename(&dir, &after).unwrap();
        assert_eq!(see(&after.join("c.jbk")), Ok(expected(6, 3)), "{name}");
    }
}

// ---------------------------------------------------------------------------------------------
// H8: the loose files and the extra content packs concatenated (every order): the result is
//     read alone, from another directory.
// ---------------------------------------------------------------------------------------------
#[test]
fn h08_concat_with_extra_packs() {
    for (mode, name) in all_modes() {
        let dir = tempfile::tempdir().unwrap();
        let out = dir.path().join("c.jbk");
        let extras = [
            Extra {
                path: dir.path().join("extra2.jbkc"),
                pack_id: 2,
            },
            Extra {
                path: dir.path().join("extra9.jbkc"),
                pack_id: 9,
            },
        ];
        build(&out, mode, jbk::creator::Compression::None, 10, &extras);
        let files = files_of(dir.path());
        let orders = permutations(&files);
        for (i, order) in orders.into_iter().enumerate() {
            let other = tempfile::tempdir().unwrap();
            let cat = other.path().join(format!("cat{i}.jbk"));
            jbk::tools::concat(&order, s(&cat)).unwrap();
            assert_eq!(see(&cat), Ok(expected(10, 4)), "{name} order {order:?}");
        }
    }
}

// ---------------------------------------------------------------------------------------------
// H9: concat of concat: the inputs of concat are themselves the output of concat.
// ---------------------------------------------------------------------------------------------
#[test]
fn h09_concat_of_concat() {
    let dir = tempfile::tempdir().unwrap();
    let out = dir.path().join("c.jbk");
    let extras = [Extra {
        path: dir.path().join("extra2.jbkc"),
        pack_id: 2,
    }];
    build(
        &out,
        ConcatMode::NoConcat,
        jbk::creator::Compression::None,
        8,
        &extras,
    );
    let files = files_of(dir.path());
    assert_eq!(files.len(), 4);
    let other = tempfile::tempdir().unwrap();
    let a = other.path().join("a.jbk");
    let b = other.path().join("b.jbk");
    jbk::tools::concat(&files[..2], s(&a)).unwrap();
    jbk::tools::concat(&files[2..], s(&b)).unwrap();
    let last = tempfile::tempdir().unwrap();
    for (i, order) in [[&a, &b], [&b, &a]].iter().enumerate() {
        let cat = last.path().join(format!("cat{i}.jbk"));
        jbk::tools::concat(&order[..], s(&cat)).unwrap();
        assert_eq!(see(&cat), Ok(expected(8, 3)));
        // and once more, alone
        let again = last.path().join(format!("again{i}.jbk"));
        jbk::tools::concat(&[&cat], s(&again)).unwrap();
        assert_eq!(see(&again), Ok(expected(8, 3)));
    }
}

// ---------------------------------------------------------------------------------------------
// H10: the pack inside the file at hand wins over the recorded location: after concat, another
//      (foreign) file sits at the recorded location, or a stale copy of the pack.
// ---------------------------------------------------------------------------------------------
#[test]
fn h10_inside_first_then_location() {
    let dir = tempfile::tempdir().unwrap();
    let out = dir.path().join("c.jbk");
    build(
        &out,
        ConcatMode::TwoFiles,
        jbk::creator::Compression::None,
        5,
        &[],
    );
    // A second, unrelated container
    let foreign_dir = tempfile::tempdir().unwrap();
    let foreign = foreign_dir.path().join("c.jbk");
    build(
        &foreign,
        ConcatMode::TwoFiles,
        jbk::creator::Compression::None,
        3,
        &[],
    );
    let files = files_of(dir.path());
    let cat = dir.path().join("cat.jbk");
    jbk::tools::concat(&files, s(&cat)).unwrap();
    // the recorded location now holds a foreign content pack, garbage, then nothing.
    std::fs::copy(foreign_dir.path().join("c.jbkc"), dir.path().join("c.jbkc")).unwrap();
    assert_eq!(see(&cat), Ok(expected(5, 2)));
    std::fs::write(dir.path().join("c.jbkc"), b"not a pack at all").unwrap();
    assert_eq!(see(&cat), Ok(expected(5, 2)));
    std::fs::remove_file(dir.path().join("c.jbkc")).unwrap();
    assert_eq!(see(&cat), Ok(expected(5, 2)));
}

// ---------------------------------------------------------------------------------------------
// H11: names of the output file. The packagings must read the same whatever the (valid) name
//      given to the container: no extension, several dots, hidden file, upper case, a name
//      which ends with one of the extensions the creator uses for its side files.
// ---------------------------------------------------------------------------------------------
#[test]
fn h11_output_names() {
    let mut failures = vec![];
    for file_name in [
        "plain",
        "a.b.c.jbk",
        ".hidden",
        "UPPER.JBK",
        "name.",
        "with space.jbk",
        "unicode-\u{e9}\u{4e2d}.jbk",
        "c.jbkm",
        "c.jbkd",
        "c.jbkc",
    ] {
        for (mode, name) in all_modes() {
            let dir = tempfile::tempdir().unwrap();
            let out = dir.path().join(file_name);
            build(&out, mode, jbk::creator::Compression::None, 4, &[]);
            let seen = see(&out);
            if seen != Ok(expected(4, 2)) {
                failures.push(format!(
                    "{file_name:?} {name}: {} (files: {:?})",
                    short(&seen),
                    files_of(dir.path())
                        .iter()
                        .map(|p| p.file_name().unwrap().to_str().unwrap().to_string())
                        .collect::<Vec<_>>()
                ));
            }
        }
    }
    assert!(failures.is_empty(), "{failures:#?}");
}

// ---------------------------------------------------------------------------------------------
// H12: two different containers written next to each other with names which differ by their
//      extension only (`data.v1`, `data.v2`). Each one must still read the same in the three
//      packagings once the other one has been written.
// ---------------------------------------------------------------------------------------------
#[test]
fn h12_sibling_containers() {
    let mut failures = vec![];
    for (mode, name) in all_modes() {
        let dir = tempfile::tempdir().unwrap();
        let first = dir.path().join("data.v1");
        let second = dir.path().join("data.v2");
        build(&first, mode, jbk::creator::Compression::None, 4, &[]);
        assert_eq!(see(&first), Ok(expected(4, 2)));
        build(&second, mode, jbk::creator::Compression::None, 7, &[]);
        let seen_first = see(&first);
        let seen_second = see(&second);
        if seen_first != Ok(expected(4, 2)) {
            failures.push(format!("{name}: data.v1 {}", short(&seen_first)));
        }
        if seen_second != Ok(expected(7, 2)) {
            failures.push(format!("{name}: data.v2 {}", short(&seen_second)));
        }
    }
    assert!(failures.is_empty(), "{failures:#?}");
}

static CWD_LOCK: std::sync::Mutex<()> = std::sync::Mutex::new(());

// ---------------------------------------------------------------------------------------------
// H13: relative paths. The container is created and opened through a path relative to the
//      current directory (`./.tmpXXXX/c.jbk`).
// ---------------------------------------------------------------------------------------------
#[test]
fn h13_relative_paths() {
    let _guard = CWD_LOCK.lock().unwrap_or_else(|e| e.into_inner());
    struct Cleanup(PathBuf);
    impl Drop for Cleanup {
        fn drop(&mut self) {
            let _ = std::fs::remove_dir_all(&self.0);
        }
    }
    for (mode, name) in all_modes() {
        // tempfile makes its paths absolute: build a relative directory by hand.
        let dir = Cleanup(PathBuf::from(format!(
            "target/hunt_c10h_rel_{}_{name}",
            std::process::id()
        )));
        std::fs::create_dir_all(&dir.0).unwrap();
        assert!(dir.0.is_relative());
        let out = dir.0.join("c.jbk");
        build(&out, mode, jbk::creator::Compression::None, 5, &[]);
        assert_eq!(see(&out), Ok(expected(5, 2)), "{name} relative");
        let abs = std::fs::canonicalize(&out).unwrap();
        assert_eq!(see(&abs), Ok(expected(5, 2)), "{name} absolute");
        // with `./` and `..` in the path given to the reader
        let odd = Path::new(".")
            .join(&dir.0)
            .join("..")
            .join(dir.0.file_name().unwrap())
            .join("c.jbk");
        assert_eq!(see(&odd), Ok(expected(5, 2)), "{name} odd");
    }
}

// ---------------------------------------------------------------------------------------------
// H14: the container is opened by its bare file name from its own directory.
// ---------------------------------------------------------------------------------------------
#[test]
fn h14_bare_file_name() {
    let _guard = CWD_LOCK.lock().unwrap_or_else(|e| e.into_inner());
    let cwd = std::env::current_dir().unwrap();
    let mut results = vec![];
    for (mode, name) in all_modes() {
        let dir = tempfile::tempdir().unwrap();
        std::env::set_current_dir(dir.path()).unwrap();
        let r = std::panic::catch_unwind(|| {
            build(
                Path::new("c.jbk"),
                mode,
                jbk::creator::Compression::None,
                5,
                &[],
            );
            see(Path::new("c.jbk"))
        });
        std::env::set_current_dir(&cwd).unwrap();
        results.push((name, r.map_err(|_| "panic")));
    }
    for (name, r) in results {
        assert_eq!(r, Ok(Ok(expected(5, 2))), "{name}");
    }
}

// ---------------------------------------------------------------------------------------------
// H15: every loose file embedded at the end of another file (found through its location, then
//      through its tail header).
// ---------------------------------------------------------------------------------------------
#[test]
fn h15_every_loose_file_embedded() {
    for (mode, name) in all_modes() {
        let dir = tempfile::tempdir().unwrap();
        let out = dir.path().join("c.jbk");
        let extras = [Extra {
            path: dir.path().join("extra2.jbkc"),
            pack_id: 2,
        }];
        build(&out, mode, jbk::creator::Compression::None, 6, &extras);
        for file in files_of(dir.path()) {
            let data = std::fs::read(&file).unwrap();
            let mut emb = b"some other file\n".repeat(77);
            emb.extend(data);
            std::fs::write(&file, emb).unwrap();
        }
        assert_eq!(see(&out), Ok(expected(6, 3)), "{name}");
    }
}

// ---------------------------------------------------------------------------------------------
// H16: every compression, through concat and prefix.
// ---------------------------------------------------------------------------------------------
#[test]
fn h16_compressions_concat_prefix() {
    for compression in compressions() {
        let dir = tempfile::tempdir().unwrap();
        let out = dir.path().join("c.jbk");
        build(&out, ConcatMode::NoConcat, compression, 9, &[]);
        let mut files = files_of(dir.path());
        files.reverse();
        let other = tempfile::tempdir().unwrap();
        let cat = other.path().join("cat.jbk");
        jbk::tools::concat(&files, s(&cat)).unwrap();
        assert_eq!(see(&cat), Ok(expected(9, 2)), "{compression:?}");
        let emb = other.path().join("emb.bin");
        with_prefix(&cat, &emb, &vec![0xA5; 12345]);
        assert_eq!(see(&emb), Ok(expected(9, 2)), "{compression:?}");
    }
}

// ---------------------------------------------------------------------------------------------
// H17: a prefix of more than 4 GiB (sparse file): offsets above 2^32.
// ---------------------------------------------------------------------------------------------
#[test]
fn h17_prefix_over_4gib() {
    use std::io::{Seek, SeekFrom, Write};
    let dir = tempfile::tempdir().unwrap();
    let out = dir.path().join("c.jbk");
    build(
        &out,
        ConcatMode::OneFile,
        jbk::creator::Compression::None,
        5,
        &[],
    );
    let emb = dir.path().join("emb.bin");
    let mut f = std::fs::File::create(&emb).unwrap();
    f.set_len((1u64 << 32) + 1).unwrap();
    f.seek(SeekFrom::End(0)).unwrap();
    f.write_all(&std::fs::read(&out).unwrap()).unwrap();
    drop(f);
    assert_eq!(see(&emb), Ok(expected(5, 2)));
}

// ---------------------------------------------------------------------------------------------
// H18: the output path holds a `..` component and an extra content pack is given through
//      the plain spelling of the same directory. The location recorded for the extra pack must
//      lead to it, as it does for the packs the creator names itself.
// ---------------------------------------------------------------------------------------------
#[test]
fn h18_dotdot_in_output_path() {
    let mut failures = vec![];
    for (mode, name) in all_modes() {
        let root = tempfile::tempdir().unwrap();
        std::fs::create_dir_all(root.path().join("sub")).unwrap();
        let out = root.path().join("sub").join("..").join("c.jbk");
        let extras = [Extra {
            path: root.path().join("extra2.jbkc"),
            pack_id: 2,
        }];
        build(&out, mode, jbk::creator::Compression::None, 6, &extras);
        for (how, path) in [
            ("as written", out.clone()),
            ("plain", root.path().join("c.jbk")),
        ] {
            let seen = see(&path);
            if seen != Ok(expected(6, 3)) {
                let first_err = seen
                    .as_ref()
                    .ok()
                    .and_then(|s| s.entries.iter().find_map(|e| e.2.clone().err()));
                failures.push(format!(
                    "{name} opened {how}: {} {first_err:?}",
                    short(&seen)
                ));
            }
        }
    }
    assert!(failures.is_empty(), "{failures:#?}");
}

// ---------------------------------------------------------------------------------------------
// H19: more than 255 packs in one container pack (257 extra content packs concatenated).
// ---------------------------------------------------------------------------------------------
#[test]
fn h19_more_than_255_packs() {
    let dir = tempfile::tempdir().unwrap();
    let out = dir.path().join("c.jbk");
    let extras: Vec<Extra> = (0..257)
        .map(|i| Extra {
            path: dir.path().join(format!("extra{i}.jbkc")),
            pack_id: 2 + i as u16,
        })
        .collect();
    build(
        &out,
        ConcatMode::NoConcat,
        jbk::creator::Compression::None,
        600,
        &extras,
    );
    assert_eq!(see(&out), Ok(expected(600, 259)));
    let files = files_of(dir.path());
    assert_eq!(files.len(), 260);
    let other = tempfile::tempdir().unwrap();
    let cat = other.path().join("cat.jbk");
    jbk::tools::concat(&files, s(&cat)).unwrap();
    assert_eq!(see(&cat), Ok(expected(600, 259)));
}

// ---------------------------------------------------------------------------------------------
// H20: an input of concat is itself embedded at the end of another file. Concat may refuse
//      it, but what it writes must read the same.
// ---------------------------------------------------------------------------------------------
#[test]
fn h20_concat_of_embedded_input() {
    let dir = tempfile::tempdir().unwrap();
    let out = dir.path().join("c.jbk");
    build(
        &out,
        ConcatMode::TwoFiles,
        jbk::creator::Compression::None,
        5,
        &[],
    );
    let content = dir.path().join("c.jbkc");
    let emb = dir.path().join("emb.bin");
    with_prefix(&content, &emb, b"prefix prefix prefix");
    let other = tempfile::tempdir().unwrap();
    let cat = other.path().join("cat.jbk");
    match jbk::tools::concat(&[&out, &emb], s(&cat)) {
        Err(_) => {}
        Ok(()) => assert_eq!(see(&cat), Ok(expected(5, 2))),
    }
}

// ---------------------------------------------------------------------------------------------
// H21: readers on several threads ask for the content packs of a loose container at once.
// ---------------------------------------------------------------------------------------------
#[test]
fn h21_concurrent_first_access() {
    let dir = tempfile::tempdir().unwrap();
    let out = dir.path().join("c.jbk");
    let extras = [
        Extra {
            path: dir.path().join("extra2.jbkc"),
            pack_id: 2,
        },
        Extra {
            path: dir.path().join("extra3.jbkc"),
            pack_id: 3,
        },
    ];
    build(
        &out,
        ConcatMode::NoConcat,
        jbk::creator::Compression::None,
        12,
        &extras,
    );
    for _ in 0..20 {
        let container = Arc::new(jbk::reader::Container::new(&out).unwrap());
        let handles: Vec<_> = (0..8)
            .map(|_| {
                let c = Arc::clone(&container);
                std::thread::spawn(move || see_container(&c))
            })
            .collect();
        for h in handles {
            assert_eq!(h.join().unwrap(), Ok(expected(12, 4)));
        }
    }
}

/// Build, with the low level creators, a container made of one directory pack and
/// `nb_content_packs` content packs (ids 1..=nb_content_packs), every pack in its own file of
/// `dir`. Entries point into the packs listed in `probed`. Returns the files (manifest first).
fn build_many_packs(dir: &Path, nb_content_packs: u16, probed: &[u16]) -> Vec<PathBuf> {
    use std::io::Seek;
    let mut files = vec![dir.join("m.jbkm"), dir.join("d.jbkd")];
    let mut manifest = jbk::creator::ManifestPackCreator::new(VENDOR_ID, Default::default());
    let mut store = Box::new(Store::new());
    let mut content_datas = vec![];
    for id in 1..=nb_content_packs {
        let path = dir.join(format!("c{id}.jbkc"));
        let mut creator = jbk::creator::ContentPackCreator::new(
            s(&path),
            jbk::PackId::from(id),
            VENDOR_ID,
            Default::default(),
            jbk::creator::Compression::None,
        )
        .unwrap();
        if let Some(pos) = probed.iter().position(|p| *p == id) {
            let address = creator
                .add_content(
                    Box::new(std::io::Cursor::new(blob(pos))),
                    Default::default(),
                )
                .unwrap();
            assert_eq!(address.pack_id, jbk::PackId::from(id));
            content_datas.push((pos, address));
        }
        let (_file, data) = creator.finalize().unwrap();
        content_datas.sort_by_key(|c| c.0);
        manifest.add_pack(data, format!("c{id}.jbkc"));
        files.push(path);
    }
    content_datas.sort_by_key(|c| c.0);
    for (pos, address) in content_datas {
        store.add(&format!("name-{pos}"), (pos * 1000 + 1) as u64, address);
    }
    let mut directory = jbk::creator::DirectoryPackCreator::new(
        jbk::PackId::from(0),
        VENDOR_ID,
        Default::default(),
    );
    store.finalize(&mut directory);
    let mut directory_file = std::fs::OpenOptions::new()
        .read(true)
        .write(true)
        .create(true)
        .truncate(true)
        .open(&files[1])
        .unwrap();
    let directory_data = directory
        .finalize()
        .unwrap()
        .write(&mut directory_file)
        .unwrap();
    directory_file.rewind().unwrap();
    manifest.add_pack(directory_data, "d.jbkd");
    let mut manifest_file = std::fs::OpenOptions::new()
        .read(true)
        .write(true)
        .create(true)
        .truncate(true)
        .open(&files[0])
        .unwrap();
    manifest.finalize(&mut manifest_file).unwrap();
    files
}

/// `see` without the full check (which would open every pack).
fn see_entries(path: &Path) -> Result<Vec<(String, u64, Result<Vec<u8>, String>)>, String> {
    let path = path.to_path_buf();
    match std::panic::catch_unwind(move || {
        let container = jbk::reader::Container::new(&path).map_err(|e| format!("open: {e}"))?;
        see_container_entries(&container)
    }) {
        Ok(r) => r,
        Err(_) => Err("PANIC".to_string()),
    }
}

// ---------------------------------------------------------------------------------------------
// H22: a middle sized low level container (300 content packs), loose and concatenated.
// ---------------------------------------------------------------------------------------------
#[test]
fn h22_low_level_300_packs() {
    let dir = tempfile::tempdir().unwrap();
    let probed = [1u16, 2, 255, 256, 300];
    let files = build_many_packs(dir.path(), 300, &probed);
    let want = expected(probed.len(), 0).entries;
    assert_eq!(see_entries(&files[0]), Ok(want.clone()));
    let other = tempfile::tempdir().unwrap();
    let cat = other.path().join("cat.jbk");
    jbk::tools::concat(&files, s(&cat)).unwrap();
    assert_eq!(see_entries(&cat), Ok(want));
}

// ---------------------------------------------------------------------------------------------
// H23: the largest container the manifest can describe: 65535 packs (one directory pack and
//      65534 content packs). Loose it reads; concatenated (65536 packs with the manifest) it
//      must read the same, or concat must refuse to write it.
//      SLOW: 65534 content pack creators are run one after the other (about 2 min 15 s with
//      `--release`, several minutes without).
// ---------------------------------------------------------------------------------------------
#[test]
fn h23_largest_container_concatenated() {
    let dir = tempfile::tempdir().unwrap();
    let probed = [1u16, 255, 256, 65534];
    let files = build_many_packs(dir.path(), 65534, &probed);
    assert_eq!(files.len(), 65536);
    let want = expected(probed.len(), 0).entries;
    assert!(
        see_entries(&files[0]) == Ok(want.clone()),
        "loose files do not read"
    );
    let other = tempfile::tempdir().unwrap();
    let cat = other.path().join("cat.jbk");
    match jbk::tools::concat(&files, s(&cat)) {
        Err(_) => {}
        Ok(()) => {
            let seen = see_entries(&cat);
            assert!(
                seen == Ok(want),
                "the loose files read, the concatenated file does not: {:?}",
                seen.map(|entries| entries
                    .into_iter()
                    .map(|e| (e.0, e.2.map(|b| b.len())))
                    .collect::<Vec<_>>())
            );
        }
    }
}

// ---------------------------------------------------------------------------------------------
// H24: a long file name: the location recorded for the side files does not fit the 213 bytes of
//      the manifest. The creator may refuse loudly (it does: assertion in
//      PArray::serialize_string_size), but if it writes a container it must read the same.
// ---------------------------------------------------------------------------------------------
#[test]
fn h24_long_file_name() {
    for len in [200usize, 208, 209, 210, 213, 214, 230] {
        for (mode, name) in all_modes() {
            let dir = tempfile::tempdir().unwrap();
            let out = dir.path().join(format!("{}.jbk", "n".repeat(len)));
            let out2 = out.clone();
            let built = std::panic::catch_unwind(move || {
                build(&out2, mode, jbk::creator::Compression::None, 4, &[])
            });
            if built.is_ok() {
                assert_eq!(see(&out), Ok(expected(4, 2)), "{name} {len}");
            }
        }
    }
}

// ---------------------------------------------------------------------------------------------
// H25: an extra content pack named through a relative path. The creator may refuse loudly (it
//      does: `expect("outfile is absolute")`), but if it writes a container it must read the same.
// ---------------------------------------------------------------------------------------------
#[test]
fn h25_extra_pack_with_relative_path() {
    let _guard = CWD_LOCK.lock().unwrap_or_else(|e| e.into_inner());
    for (mode, name) in all_modes() {
        let dir = PathBuf::from(format!(
            "target/hunt_c10h_relextra_{}_{name}",
            std::process::id()
        ));
        std::fs::create_dir_all(&dir).unwrap();
        let out = dir.join("c.jbk");
        let out2 = out.clone();
        let extra = dir.join("extra2.jbkc");
        let built = std::panic::catch_unwind(move || {
            build(
                &out2,
                mode,
                jbk::creator::Compression::None,
                4,
                &[Extra {
                    path: extra,
                    pack_id: 2,
                }],
            )
        });
        let seen = built.map(|_| see(&out));
        let _ = std::fs::remove_dir_all(&dir);
        if let Ok(seen) = seen {
            assert_eq!(seen, Ok(expected(4, 3)), "{name}");
        }
    }
}
