// Bug hunt for property C01:
//   "Stored content reads back byte-identical at the address returned on insertion"
//
// Every test PASSES if the property holds and FAILS if it is violated.
// Run with: TMPDIR=/tmp/wt/C01h/tmp cargo test --offline --features lz4,lzma,zstd --test hunt_c01h

use jubako::creator::{
    CachedContentAdder, CompHint, Compression, ContainerPackCreator, ContentAdder,
    ContentPackCreator, InputFile, InputReader,
};
use jubako::reader::{ByteRegion, ContainerPack, ContentPack};
use jubako::{ContentAddress, ContentIdx, FileSource, Offset, PackId, Reader, VendorId};
use std::io::{Cursor, Read, Seek, SeekFrom, Write};
use std::rc::Rc;

// ---------------------------------------------------------------------------------------------
// Helpers
// ---------------------------------------------------------------------------------------------

fn tmpdir() -> tempfile::TempDir {
    tempfile::tempdir().unwrap()
}

fn utf8(p: &std::path::Path) -> jubako::Utf8PathBuf {
    jubako::Utf8PathBuf::from_path_buf(p.to_path_buf()).unwrap()
}

/// Deterministic high entropy bytes (xorshift64*)
fn noise(seed: u64, len: usize) -> Vec<u8> {
    let mut s = seed.wrapping_mul(0x9E3779B97F4A7C15) | 1;
    let mut v = Vec::with_capacity(len + 8);
    while v.len() < len {
        s ^= s >> 12;
        s ^= s << 25;
        s ^= s >> 27;
        let x = s.wrapping_mul(0x2545F4914F6CDD1D);
        v.extend_from_slice(&x.to_le_bytes());
    }
    v.truncate(len);
    v
}

/// Deterministic low entropy bytes (but different for different seeds)
fn text(seed: u64, len: usize) -> Vec<u8> {
    let words = [
        "jubako ", "content ", "pack ", "cluster ", "blob ", "offset ", "lorem ", "ipsum ",
    ];
    let mut v = Vec::with_capacity(len + 16);
    v.extend_from_slice(format!("<{seed}>").as_bytes());
    let mut i = seed as usize;
    while v.len() < len {
        v.extend_from_slice(words[i % words.len()].as_bytes());
        i = i.wrapping_mul(31).wrapping_add(7);
    }
    v.truncate(len);
    v
}

#[derive(Clone, Copy, Debug, PartialEq)]
enum Hint {
    Yes,
    No,
    Detect,
}

impl Hint {
    fn get(self) -> CompHint {
        match self {
            Hint::Yes => CompHint::Yes,
            Hint::No => CompHint::No,
            Hint::Detect => CompHint::Detect,
        }
    }
}

#[derive(Clone, Copy, Debug, PartialEq)]
enum Src {
    /// `Cursor<Vec<u8>>`
    Mem,
    /// A whole file
    File,
    /// A sub range of a bigger file (prefix and suffix of junk around the data)
    Range(usize, usize),
}

#[derive(Clone, Debug)]
struct Item {
    data: Vec<u8>,
    hint: Hint,
    src: Src,
}

fn item(data: Vec<u8>, hint: Hint, src: Src) -> Item {
    Item { data, hint, src }
}

#[derive(Clone, Copy, Debug, PartialEq)]
enum Packaging {
    /// Content pack alone in its file
    Alone,
    /// Content pack written in a container pack (`InContainerFile`)
    InContainer,
    /// Content pack written in a container pack, after another (dummy) pack
    InContainerSecond,
}

fn make_reader(dir: &std::path::Path, idx: usize, it: &Item) -> Box<dyn InputReader> {
    match it.src {
        Src::Mem => Box::new(Cursor::new(it.data.clone())),
        Src::File => {
            let p = dir.join(format!("input_{idx}.bin"));
            std::fs::write(&p, &it.data).unwrap();
            Box::new(InputFile::open(&p).unwrap())
        }
        Src::Range(prefix, suffix) => {
            let p = dir.join(format!("input_{idx}.bin"));
            let mut f = std::fs::File::create(&p).unwrap();
            f.write_all(&vec![0xAA; prefix]).unwrap();
            f.write_all(&it.data).unwrap();
            f.write_all(&vec![0x55; suffix]).unwrap();
            drop(f);
            let f = std::fs::File::open(&p).unwrap();
            Box::new(InputFile::new_range(f, prefix as u64, Some(it.data.len() as u64)).unwrap())
        }
    }
}

fn add_all<A: ContentAdder>(
    adder: &mut A,
    dir: &std::path::Path,
    items: &[Item],
) -> Vec<ContentAddress> {
    items
        .iter()
        .enumerate()
        .map(|(idx, it)| {
            adder
                .add_content(make_reader(dir, idx, it), it.hint.get())
                .unwrap()
        })
        .collect()
}

/// Build a content pack with `items` and return a reader on the content pack.
fn build(
    dir: &std::path::Path,
    compression: Compression,
    packaging: Packaging,
    cached: bool,
    items: &[Item],
) -> (Reader, Vec<ContentAddress>) {
    let pack_path = utf8(&dir.join("pack.jbkc"));
    let pack_id = PackId::from(1);
    let vendor = VendorId::from([1, 2, 3, 4]);
    match packaging {
        Packaging::Alone => {
            let mut creator = ContentPackCreator::new(
                &pack_path,
                pack_id,
                vendor,
                Default::default(),
                compression,
            )
            .unwrap();
            let addresses = if cached {
                let mut cached = CachedContentAdder::new(creator, Rc::new(()));
                let a = add_all(&mut cached, dir, items);
                creator = cached.into_inner();
                a
            } else {
                add_all(&mut creator, dir, items)
            };
            let (_file, _pack_data) = creator.finalize().unwrap();
            let reader: Reader = FileSource::open(pack_path.as_std_path()).unwrap().into();
            (reader, addresses)
        }
        Packaging::InContainer | Packaging::InContainerSecond => {
            let mut container =
                ContainerPackCreator::new(&pack_path, Default::default()).unwrap();
            if packaging == Packaging::InContainerSecond {
                // Put a first (small) content pack in the container, so our pack is not at the
                // beginning.
                let in_file = container.into_file().unwrap();
                let mut first = ContentPackCreator::new_from_output(
                    in_file,
                    PackId::from(7),
                    vendor,
                    Default::default(),
                    Compression::None,
                )
                .unwrap();
                first
                    .add_content(Box::new(Cursor::new(noise(99, 1000))), CompHint::No)
                    .unwrap();
                let (in_file, data) = first.finalize().unwrap();
                container = in_file.close(data.uuid).unwrap();
            }
            let in_file = container.into_file().unwrap();
            let mut creator = ContentPackCreator::new_from_output(
                in_file,
                pack_id,
                vendor,
                Default::default(),
                compression,
            )
            .unwrap();
            let addresses = if cached {
                let mut cached = CachedContentAdder::new(creator, Rc::new(()));
                let a = add_all(&mut cached, dir, items);
                creator = cached.into_inner();
                a
            } else {
                add_all(&mut creator, dir, items)
            };
            let (in_file, pack_data) = creator.finalize().unwrap();
            let container = in_file.close(pack_data.uuid).unwrap();
            let _file = container.finalize().unwrap();
            let reader: Reader = FileSource::open(pack_path.as_std_path()).unwrap().into();
            let container = ContainerPack::new(reader).unwrap();
            let reader = container
                .get_pack_reader(&pack_data.uuid)
                .expect("Pack is in container");
            (reader, addresses)
        }
    }
}

fn read_all(region: &ByteRegion) -> Vec<u8> {
    let mut v = vec![];
    region.stream().read_to_end(&mut v).unwrap();
    v
}

fn first_diff(a: &[u8], b: &[u8]) -> Option<usize> {
    a.iter().zip(b.iter()).position(|(x, y)| x != y)
}

/// Check that the pack contains exactly the expected contents at the given addresses.
/// `expected_count`: the number of contents the pack must report.
fn check_pack(
    reader: Reader,
    addresses: &[ContentAddress],
    items: &[Item],
    expected_count: usize,
    what: &str,
) {
    let pack = ContentPack::new(reader).unwrap();
    assert_eq!(
        pack.get_content_count().into_u64(),
        expected_count as u64,
        "{what}: content count"
    );
    assert_eq!(addresses.len(), items.len());
    for (idx, (addr, it)) in addresses.iter().zip(items.iter()).enumerate() {
        assert_eq!(addr.pack_id, PackId::from(1), "{what}: pack id of {idx}");
        let region = pack
            .get_content(addr.content_id)
            .unwrap_or_else(|e| panic!("{what}: content {idx} gives error {e}"))
            .unwrap_or_else(|| panic!("{what}: content {idx} is missing"));
        assert_eq!(
            region.size().into_u64(),
            it.data.len() as u64,
            "{what}: size of content {idx}"
        );
        let got = read_all(&region);
        assert_eq!(got.len(), it.data.len(), "{what}: read length of content {idx}");
        if got != it.data {
            panic!(
                "{what}: content {idx} (len {}) differs at byte {:?}",
                it.data.len(),
                first_diff(&got, &it.data)
            );
        }
        // Same thing using get_slice
        let slice = region.get_slice(Offset::zero(), it.data.len()).unwrap();
        assert!(
            slice.as_ref() == it.data.as_slice(),
            "{what}: slice of content {idx} differs"
        );
    }
    // Address past the count answers "no such content"
    for past in [0_u32, 1, 2, 4095, 4096, 0x00FF_FFFF, u32::MAX - expected_count as u32] {
        let Some(idx) = (expected_count as u32).checked_add(past) else {
            continue;
        };
        let r = pack.get_content(ContentIdx::from(idx));
        match r {
            Ok(None) => {}
            Ok(Some(_)) => panic!("{what}: content {idx} (past the end) exists"),
            Err(e) => panic!("{what}: content {idx} (past the end) gives error {e}"),
        }
    }
}

fn roundtrip(compression: Compression, packaging: Packaging, cached: bool, items: &[Item], what: &str) {
    let dir = tmpdir();
    let (reader, addresses) = build(dir.path(), compression, packaging, cached, items);
    // Without the cache, addresses are 0, 1, 2...
    if !cached {
        for (i, a) in addresses.iter().enumerate() {
            assert_eq!(a.content_id, ContentIdx::from(i as u32), "{what}: address {i}");
        }
        check_pack(reader, &addresses, items, items.len(), what);
    } else {
        let mut uniq = std::collections::HashSet::new();
        for it in items {
            uniq.insert(it.data.clone());
        }
        check_pack(reader, &addresses, items, uniq.len(), what);
    }
}

fn all_compressions() -> Vec<(&'static str, Compression)> {
    #[allow(unused_imports)]
    use deranged_levels::*;
    #[allow(unused_mut)]
    let mut v = vec![("none", Compression::None)];
    #[cfg(feature = "zstd")]
    {
        v.push(("zstd", Compression::zstd()));
        v.push(("zstd-22", zstd(-22)));
        v.push(("zstd0", zstd(0)));
        v.push(("zstd1", zstd(1)));
        v.push(("zstd19", zstd(19)));
    }
    #[cfg(feature = "lz4")]
    {
        v.push(("lz4", Compression::lz4()));
        v.push(("lz4-0", lz4(0)));
        v.push(("lz4-15", lz4(15)));
    }
    #[cfg(feature = "lzma")]
    {
        v.push(("lzma0", lzma(0)));
        v.push(("lzma6", lzma(6)));
    }
    v
}

fn main_compressions() -> Vec<(&'static str, Compression)> {
    #[allow(unused_mut)]
    let mut v = vec![("none", Compression::None)];
    #[cfg(feature = "zstd")]
    v.push(("zstd", Compression::zstd()));
    #[cfg(feature = "lz4")]
    v.push(("lz4", Compression::lz4()));
    #[cfg(feature = "lzma")]
    v.push(("lzma1", deranged_levels::lzma(1)));
    v
}

/// The `Compression` levels are `deranged` integers. `deranged` is not a dependency we can name
/// from here, so we build the levels from the type of the public field using `TryFrom`/inference.
#[allow(unused_imports, dead_code)]
mod deranged_levels {
    use jubako::creator::Compression;

    #[cfg(feature = "zstd")]
    pub fn zstd(level: i32) -> Compression {
        // Use the default to get a value of the right type then replace the level.
        match Compression::zstd() {
            Compression::Zstd(l) => {
                let _ = l;
                Compression::Zstd(level.try_into().ok().expect("valid level"))
            }
            _ => unreachable!(),
        }
    }

    #[cfg(feature = "lz4")]
    pub fn lz4(level: u32) -> Compression {
        Compression::Lz4(level.try_into().ok().expect("valid level"))
    }

    #[cfg(feature = "lzma")]
    pub fn lzma(level: u32) -> Compression {
        Compression::Lzma(level.try_into().ok().expect("valid level"))
    }
}

// ---------------------------------------------------------------------------------------------
// H1: empty pack, empty contents (alone, first, last, only, in a row), in every configuration
// ---------------------------------------------------------------------------------------------

#[test]
fn h01_empty_pack() {
    for (name, comp) in all_compressions() {
        for packaging in [Packaging::Alone, Packaging::InContainer, Packaging::InContainerSecond] {
            for cached in [false, true] {
                roundtrip(comp, packaging, cached, &[], &format!("empty pack {name} {packaging:?} cached={cached}"));
            }
        }
    }
}

#[test]
fn h01_empty_contents() {
    for (name, comp) in all_compressions() {
        for hint in [Hint::Yes, Hint::No, Hint::Detect] {
            for src in [Src::Mem, Src::File, Src::Range(10, 10), Src::Range(0, 0)] {
                let e = || item(vec![], hint, src);
                let t = |s: u64, l: usize| item(text(s, l), hint, src);
                let sequences: Vec<Vec<Item>> = vec![
                    vec![e()],
                    vec![e(), e(), e()],
                    vec![e(), t(1, 10)],
                    vec![t(1, 10), e()],
                    vec![t(1, 10), e(), e(), t(2, 20), e()],
                    vec![e(), e(), t(1, 1), e(), e()],
                ];
                for (i, seq) in sequences.iter().enumerate() {
                    roundtrip(
                        comp,
                        Packaging::Alone,
                        false,
                        seq,
                        &format!("empty contents {name} {hint:?} {src:?} seq {i}"),
                    );
                }
            }
        }
    }
}

// ---------------------------------------------------------------------------------------------
// H2: raw and compressed clusters interleaved in the same pack (hints alternate),
//     every compression x level, every source kind, every packaging.
// ---------------------------------------------------------------------------------------------

fn mixed_items(n: usize, seed: u64) -> Vec<Item> {
    let hints = [Hint::Yes, Hint::No, Hint::Detect];
    let srcs = [Src::Mem, Src::File, Src::Range(13, 7), Src::Range(0, 100), Src::Range(4096, 0)];
    let lens = [0, 1, 2, 3, 100, 255, 256, 257, 1000, 4095, 4096, 4097, 10_000, 70_000];
    (0..n)
        .map(|i| {
            let s = seed + i as u64;
            let len = lens[(i * 7 + seed as usize) % lens.len()];
            let data = if (i / 2) % 2 == 0 { text(s, len) } else { noise(s, len) };
            item(data, hints[(i + seed as usize) % 3], srcs[(i * 3 + seed as usize) % srcs.len()])
        })
        .collect()
}

#[test]
fn h02_mixed_raw_and_compressed_clusters() {
    for (name, comp) in all_compressions() {
        for packaging in [Packaging::Alone, Packaging::InContainer, Packaging::InContainerSecond] {
            let items = mixed_items(60, 1);
            roundtrip(comp, packaging, false, &items, &format!("mixed {name} {packaging:?}"));
        }
    }
}

#[test]
fn h02_mixed_with_cache_and_duplicates() {
    for (name, comp) in main_compressions() {
        let mut items = mixed_items(40, 5);
        // Add duplicates (same bytes, different hints and sources)
        let dups: Vec<Item> = items
            .iter()
            .step_by(3)
            .map(|it| item(it.data.clone(), Hint::Detect, Src::Mem))
            .collect();
        items.extend(dups);
        let dups: Vec<Item> = items
            .iter()
            .step_by(5)
            .map(|it| item(it.data.clone(), Hint::No, Src::Range(3, 3)))
            .collect();
        items.extend(dups);
        for packaging in [Packaging::Alone, Packaging::InContainer] {
            roundtrip(comp, packaging, true, &items, &format!("cached {name} {packaging:?}"));
            // And duplicates without the deduplicating adder are stored twice
            roundtrip(comp, packaging, false, &items, &format!("dups not cached {name} {packaging:?}"));
        }
    }
}

// ---------------------------------------------------------------------------------------------
// H3: the 4095 blobs split. Number of items around 4095 and multiples, for raw and compressed
//     clusters, alone and interleaved (both open clusters get full at different times).
// ---------------------------------------------------------------------------------------------

fn tiny_items(n: usize, hint_of: impl Fn(usize) -> Hint) -> Vec<Item> {
    (0..n)
        .map(|i| {
            // Lengths 0..=4, content depends on i
            let len = i % 5;
            let data = format!("{i:04x}").into_bytes()[..len.min(4)].to_vec();
            item(data, hint_of(i), Src::Mem)
        })
        .collect()
}

#[test]
fn h03_blob_count_split() {
    for (name, comp) in main_compressions() {
        for n in [4094, 4095, 4096, 4097, 8189, 8190, 8191, 12286] {
            for (hname, hint) in [("yes", Hint::Yes), ("no", Hint::No), ("detect", Hint::Detect)] {
                let items = tiny_items(n, |_| hint);
                roundtrip(comp, Packaging::Alone, false, &items, &format!("split {name} n={n} {hname}"));
            }
        }
        // Interleaved: 2 of 3 contents are compressed
        let items = tiny_items(13000, |i| if i % 3 == 0 { Hint::No } else { Hint::Yes });
        roundtrip(comp, Packaging::InContainer, false, &items, &format!("split {name} interleaved"));
    }
}

#[test]
fn h03_blob_count_split_all_empty() {
    // A cluster containing 4095 empty contents has a data size of 0.
    for (name, comp) in main_compressions() {
        for hint in [Hint::Yes, Hint::No] {
            let items: Vec<Item> = (0..4097).map(|_| item(vec![], hint, Src::Mem)).collect();
            roundtrip(comp, Packaging::Alone, false, &items, &format!("4097 empties {name} {hint:?}"));
        }
    }
}

// ---------------------------------------------------------------------------------------------
// H4: the 4MiB split of compressed clusters. Contents sum exactly to 4MiB, 4MiB +/- 1,
//     one content of exactly 4MiB/4MiB+1, content bigger than several clusters.
// ---------------------------------------------------------------------------------------------

const MIB: usize = 1024 * 1024;

#[test]
fn h04_cluster_size_split() {
    for (name, comp) in main_compressions() {
        let sequences: Vec<(&str, Vec<usize>)> = vec![
            ("exact", vec![MIB, MIB, MIB, MIB, 1, 0, 5]),
            ("minus1", vec![MIB, MIB, MIB, MIB - 1, 1, 1, 0]),
            ("plus1", vec![MIB, MIB, MIB, MIB + 1, 10]),
            ("one4M", vec![4 * MIB, 1, 4 * MIB, 0, 4 * MIB + 1, 3]),
            ("small_then_big", vec![1, 4 * MIB, 1, 4 * MIB - 1, 2]),
            ("zero_then_big", vec![0, 4 * MIB + 1, 0, 0, 4 * MIB, 0]),
        ];
        for (sname, lens) in sequences {
            for hint in [Hint::Yes, Hint::Detect] {
                let items: Vec<Item> = lens
                    .iter()
                    .enumerate()
                    .map(|(i, l)| item(text(i as u64 + 10, *l), hint, if i % 2 == 0 { Src::Mem } else { Src::Range(5, 5) }))
                    .collect();
                roundtrip(comp, Packaging::Alone, false, &items, &format!("4MiB split {name} {sname} {hint:?}"));
            }
        }
    }
}

#[test]
fn h04_content_of_several_clusters() {
    for (name, comp) in main_compressions() {
        for hint in [Hint::Yes, Hint::No, Hint::Detect] {
            let items = vec![
                item(text(1, 100), hint, Src::Mem),
                item(text(2, 9 * MIB + 17), hint, Src::File),
                item(noise(3, 13 * MIB + 1), hint, Src::Range(1000, 1)),
                item(text(4, 100), hint, Src::Mem),
                item(noise(5, 5 * MIB), hint, Src::Mem),
                item(vec![], hint, Src::Mem),
            ];
            for cached in [false, true] {
                roundtrip(comp, Packaging::Alone, cached, &items, &format!("big {name} {hint:?} cached={cached}"));
            }
        }
    }
}

// ---------------------------------------------------------------------------------------------
// H5: total data size of a cluster crossing the 1/2/3/4 bytes offset-width boundaries.
//     With and without trailing empty content (last offset == data size).
//     Incompressible data in a compressed cluster (stored size > data size).
// ---------------------------------------------------------------------------------------------

#[test]
fn h05_offset_width_boundaries() {
    for (name, comp) in main_compressions() {
        for total in [254_usize, 255, 256, 257, 65534, 65535, 65536, 65537, (1 << 24) - 1, 1 << 24, (1 << 24) + 1] {
            if total >= (1 << 24) && name == "lzma1" {
                // Too slow for nothing new
                continue;
            }
            for hint in [Hint::Yes, Hint::No] {
                for noisy in [false, true] {
                    let gen = |s: u64, l: usize| if noisy { noise(s, l) } else { text(s, l) };
                    // One cluster of exactly `total` bytes in 3 contents (+ trailing empty one)
                    if hint == Hint::Yes && total > 4 * MIB && !matches!(comp, Compression::None) {
                        // Only one content can make a compressed cluster this big.
                        let items = vec![item(gen(1, total), hint, Src::Mem), item(gen(2, 3), hint, Src::Mem)];
                        roundtrip(comp, Packaging::Alone, false, &items, &format!("width {name} total={total} {hint:?} noisy={noisy} single"));
                        continue;
                    }
                    let a = total / 3;
                    let b = total / 2 - a;
                    let c = total - a - b;
                    let items = vec![
                        item(gen(1, a), hint, Src::Mem),
                        item(gen(2, b), hint, Src::Mem),
                        item(gen(3, c), hint, Src::Mem),
                    ];
                    roundtrip(comp, Packaging::Alone, false, &items, &format!("width {name} total={total} {hint:?} noisy={noisy}"));
                    let mut items2 = items.clone();
                    items2.push(item(vec![], hint, Src::Mem));
                    roundtrip(comp, Packaging::Alone, false, &items2, &format!("width {name} total={total} {hint:?} noisy={noisy} trailing empty"));
                    let mut items3 = vec![item(vec![], hint, Src::Mem)];
                    items3.extend(items);
                    roundtrip(comp, Packaging::Alone, false, &items3, &format!("width {name} total={total} {hint:?} noisy={noisy} leading empty"));
                }
            }
        }
    }
}

#[test]
fn h05_tiny_incompressible_in_compressed_cluster() {
    // Compressed stream is bigger than the data (frame headers): the tail must cope.
    for (name, comp) in all_compressions() {
        for total in [0_usize, 1, 2, 200, 250, 253, 254, 255, 256, 65500, 65530, 65535, 65536] {
            let items = vec![item(noise(total as u64, total), Hint::Yes, Src::Mem)];
            roundtrip(comp, Packaging::Alone, false, &items, &format!("tiny incompressible {name} {total}"));
        }
    }
}

// ---------------------------------------------------------------------------------------------
// H6: many clusters (more than the reader cache of 40 clusters, more than the compression
//     queue), clusters written out of order by the worker threads. Regions kept alive across
//     cache evictions. Random access order.
// ---------------------------------------------------------------------------------------------

#[test]
fn h06_many_clusters_lru_and_order() {
    for (name, comp) in main_compressions() {
        if name == "lzma1" {
            continue; // same code path, too slow
        }
        // Each content is > 2MiB : one compressed cluster per content. Sizes vary a lot so the
        // workers finish in another order than the submission order.
        let mut items = vec![];
        for i in 0..90_usize {
            let len = if i % 4 == 0 { 2 * MIB + 1 + i } else if i % 4 == 1 { 4 * MIB - i } else { 2 * MIB + 100 * i };
            let hint = if i % 5 == 4 { Hint::No } else { Hint::Yes };
            let data = if i % 7 == 3 { noise(i as u64, len) } else { text(i as u64, len) };
            items.push(item(data, hint, Src::Mem));
            // And small contents between
            items.push(item(text(1000 + i as u64, i), Hint::No, Src::Mem));
        }
        let dir = tmpdir();
        let (reader, addresses) = build(dir.path(), comp, Packaging::Alone, false, &items);
        let pack = ContentPack::new(reader.clone()).unwrap();
        // Get all regions first, in reverse order
        let regions: Vec<ByteRegion> = addresses
            .iter()
            .rev()
            .map(|a| pack.get_content(a.content_id).unwrap().unwrap())
            .collect();
        // Read them in a pseudo random order
        let n = regions.len();
        for k in 0..n {
            let j = (k * 77 + 13) % n;
            let got = read_all(&regions[j]);
            let expected = &items[n - 1 - j].data;
            assert!(&got == expected, "{name}: region {j} differs (len {} vs {})", got.len(), expected.len());
        }
        check_pack(reader, &addresses, &items, items.len(), &format!("many clusters {name}"));
    }
}

#[test]
fn h06_many_small_clusters() {
    // 60 clusters of 4095 tiny blobs, raw and compressed interleaved
    for (name, comp) in main_compressions() {
        if name == "lzma1" {
            continue;
        }
        let n = 4095 * 60 + 17;
        let items = tiny_items(n, |i| if (i / 1000) % 2 == 0 { Hint::Yes } else { Hint::No });
        roundtrip(comp, Packaging::Alone, false, &items, &format!("many small clusters {name}"));
    }
}

// ---------------------------------------------------------------------------------------------
// H7: concurrent readers on the same (compressed) clusters: decompression is lazy and made
//     in a background thread, readers wait for the part they need.
// ---------------------------------------------------------------------------------------------

#[test]
fn h07_concurrent_readers() {
    for (name, comp) in main_compressions() {
        let mut items = vec![];
        for i in 0..300_usize {
            let len = (i * 977) % 60_000;
            let data = if i % 3 == 0 { noise(i as u64, len) } else { text(i as u64, len) };
            items.push(item(data, if i % 4 == 0 { Hint::No } else { Hint::Yes }, Src::Mem));
        }
        let dir = tmpdir();
        let (reader, addresses) = build(dir.path(), comp, Packaging::InContainer, false, &items);
        let pack = std::sync::Arc::new(ContentPack::new(reader).unwrap());
        let items = std::sync::Arc::new(items);
        let addresses = std::sync::Arc::new(addresses);
        let mut handles = vec![];
        for t in 0..16_usize {
            let pack = pack.clone();
            let items = items.clone();
            let addresses = addresses.clone();
            handles.push(std::thread::spawn(move || {
                let n = items.len();
                for k in 0..n {
                    // Each thread has its own order; start by the end of the clusters
                    let j = (n - 1 - k + t * 37) % n;
                    let region = pack.get_content(addresses[j].content_id).unwrap().unwrap();
                    let got = read_all(&region);
                    assert!(got == items[j].data, "thread {t}: content {j} differs");
                }
            }));
        }
        for h in handles {
            h.join().unwrap_or_else(|_| panic!("{name}: a reader thread failed"));
        }
    }
}

// ---------------------------------------------------------------------------------------------
// H8: partial reads of a content: small buffers, sub slices, cut.
// ---------------------------------------------------------------------------------------------

#[test]
fn h08_partial_reads() {
    for (name, comp) in main_compressions() {
        let items = vec![
            item(text(1, 5000), Hint::Yes, Src::Mem),
            item(noise(2, 70_000), Hint::Yes, Src::Mem),
            item(text(3, 70_001), Hint::No, Src::Mem),
            item(noise(4, 3), Hint::No, Src::Mem),
            item(text(5, 300_000), Hint::Yes, Src::Mem),
        ];
        let dir = tmpdir();
        let (reader, addresses) = build(dir.path(), comp, Packaging::Alone, false, &items);
        let pack = ContentPack::new(reader).unwrap();
        // Read the last content first, by its end.
        for (addr, it) in addresses.iter().zip(items.iter()).rev() {
            let region = pack.get_content(addr.content_id).unwrap().unwrap();
            let len = it.data.len();
            for (off, size) in [(len - 1, 1), (len / 2, len / 4), (0, 1), (1, len - 1), (len, 0), (0, 0)] {
                let s = region.get_slice(Offset::from(off as u64), size).unwrap();
                assert!(s.as_ref() == &it.data[off..off + size], "{name}: slice {off}+{size}");
                let cut = region.cut(Offset::from(off as u64), jubako::Size::from(size as u64));
                let mut v = vec![];
                cut.stream().read_to_end(&mut v).unwrap();
                assert!(v == &it.data[off..off + size], "{name}: cut {off}+{size}");
            }
            // Small buffer reads
            let mut stream = region.stream();
            let mut got = vec![];
            let mut buf = [0_u8; 7];
            loop {
                let n = stream.read(&mut buf).unwrap();
                if n == 0 {
                    break;
                }
                got.extend_from_slice(&buf[..n]);
            }
            assert!(got == it.data, "{name}: small reads");
        }
    }
}

// ---------------------------------------------------------------------------------------------
// H9: input readers which are not "fresh": a Cursor or an InputFile already (partly) read,
//     as it happens when the application sniffs the beginning of the content (mime type...)
//     before giving it to the creator. InputReader::size() is the full size.
// ---------------------------------------------------------------------------------------------

fn sniffed_roundtrip(comp: Compression, hint: Hint, file: bool, cached: bool, what: &str) {
    let dir = tmpdir();
    let data = text(42, 20_000);
    let other = text(43, 100);
    let pack_path = utf8(&dir.path().join("pack.jbkc"));
    let mut creator = ContentPackCreator::new(&pack_path, PackId::from(1), VendorId::from([0, 0, 0, 0]), Default::default(), comp).unwrap();
    let mut reader: Box<dyn InputReader> = if file {
        let p = dir.path().join("in.bin");
        std::fs::write(&p, &data).unwrap();
        Box::new(InputFile::open(&p).unwrap())
    } else {
        Box::new(Cursor::new(data.clone()))
    };
    // Application sniffs the beginning of the content ...
    let mut head = [0_u8; 16];
    reader.read_exact(&mut head).unwrap();
    assert_eq!(&head, &data[..16]);
    // ... and rewinds it.
    reader.seek(SeekFrom::Start(0)).unwrap();
    let (a0, a1) = if cached {
        let mut cached = CachedContentAdder::new(creator, Rc::new(()));
        let a0 = cached.add_content(reader, hint.get()).unwrap();
        let a1 = cached.add_content(Box::new(Cursor::new(other.clone())), hint.get()).unwrap();
        creator = cached.into_inner();
        (a0, a1)
    } else {
        let a0 = creator.add_content(reader, hint.get()).unwrap();
        let a1 = creator.add_content(Box::new(Cursor::new(other.clone())), hint.get()).unwrap();
        (a0, a1)
    };
    creator.finalize().unwrap();
    let reader: Reader = FileSource::open(pack_path.as_std_path()).unwrap().into();
    let items = vec![item(data, hint, Src::Mem), item(other, hint, Src::Mem)];
    check_pack(reader, &[a0, a1], &items, 2, what);
}

#[test]
fn h09_sniffed_then_rewound_input() {
    for (name, comp) in main_compressions() {
        for hint in [Hint::Yes, Hint::No, Hint::Detect] {
            for file in [false, true] {
                for cached in [false, true] {
                    sniffed_roundtrip(comp, hint, file, cached, &format!("sniffed {name} {hint:?} file={file} cached={cached}"));
                }
            }
        }
    }
}

#[test]
fn h09_range_at_end_of_file_and_empty_file() {
    for (name, comp) in main_compressions() {
        for hint in [Hint::Yes, Hint::No, Hint::Detect] {
            let items = vec![
                item(vec![], hint, Src::Range(100, 0)), // empty range at the very end of file
                item(text(1, 50), hint, Src::Range(100, 0)), // range ending at end of file
                item(vec![], hint, Src::File),          // empty file
                item(text(2, 50), hint, Src::Range(0, 100)),
            ];
            for cached in [false, true] {
                roundtrip(comp, Packaging::Alone, cached, &items, &format!("range end {name} {hint:?} cached={cached}"));
            }
        }
    }
}

// ---------------------------------------------------------------------------------------------
// H10: several sub-ranges of the SAME file (an application packing an existing archive), each
//      InputFile having its own handle on the file opened independently.
// ---------------------------------------------------------------------------------------------

#[test]
fn h10_several_ranges_of_one_file_independent_handles() {
    for (name, comp) in main_compressions() {
        for hint in [Hint::Yes, Hint::No, Hint::Detect] {
            let dir = tmpdir();
            let big = text(7, 200_000);
            let p = dir.path().join("big.bin");
            std::fs::write(&p, &big).unwrap();
            let ranges = [(0_usize, 10_usize), (10, 5000), (5010, 0), (5010, 100_000), (150_000, 50_000), (3, 9)];
            let pack_path = utf8(&dir.path().join("pack.jbkc"));
            let mut creator = ContentPackCreator::new(&pack_path, PackId::from(1), VendorId::from([0, 0, 0, 0]), Default::default(), comp).unwrap();
            let mut addresses = vec![];
            let mut items = vec![];
            for (o, l) in ranges {
                let f = std::fs::File::open(&p).unwrap();
                let r = InputFile::new_range(f, o as u64, Some(l as u64)).unwrap();
                addresses.push(creator.add_content(Box::new(r), hint.get()).unwrap());
                items.push(item(big[o..o + l].to_vec(), hint, Src::Mem));
            }
            creator.finalize().unwrap();
            let reader: Reader = FileSource::open(pack_path.as_std_path()).unwrap().into();
            check_pack(reader, &addresses, &items, ranges.len(), &format!("ranges {name} {hint:?}"));
        }
    }
}

// ---------------------------------------------------------------------------------------------
// H11: all the packagings of BasicCreator (one file, two files, no concat) + an extra content
//      pack in its own file, read through `Container::get_bytes`.
// ---------------------------------------------------------------------------------------------

struct NoEntries;
impl jubako::creator::EntryStoreTrait for NoEntries {
    fn finalize(self: Box<Self>, _directory_pack: &mut jubako::creator::DirectoryPackCreator) {}
}

fn container_bytes(container: &jubako::reader::Container, addr: ContentAddress) -> Option<ByteRegion> {
    match container.get_bytes(addr).unwrap() {
        None => None,
        Some(m) => m.unwrap(),
    }
}

#[test]
fn h11_basic_creator_packagings() {
    use jubako::creator::{AtomicOutFile, BasicCreator, ConcatMode, PackRecipient};
    for (name, comp) in main_compressions() {
        for (mname, mode) in [("one", ConcatMode::OneFile), ("two", ConcatMode::TwoFiles), ("noconcat", ConcatMode::NoConcat)] {
            let dir = tmpdir();
            let out = utf8(&dir.path().join("archive.jbk"));
            let mut creator = BasicCreator::new(&out, mode, VendorId::from([9, 9, 9, 9]), comp, std::sync::Arc::new(())).unwrap();
            let items = mixed_items(50, 3);
            let addresses = add_all(&mut creator, dir.path(), &items);

            // Extra content pack
            let extra_path = utf8(&dir.path().join("extra.jbkc"));
            let extra_file: Box<dyn PackRecipient> = AtomicOutFile::new(&extra_path).unwrap();
            let mut extra = ContentPackCreator::new_from_output(extra_file, PackId::from(2), VendorId::from([9, 9, 9, 9]), Default::default(), comp).unwrap();
            let extra_items = mixed_items(30, 11);
            // (inputs are read lazily: do not overwrite the input files of the main pack)
            let extra_inputs = tmpdir();
            let extra_addresses = add_all(&mut extra, extra_inputs.path(), &extra_items);

            creator.finalize(Box::new(NoEntries), vec![extra]).unwrap();

            let container = jubako::reader::Container::new(out.as_std_path()).unwrap();
            for (idx, (addr, it)) in addresses.iter().zip(items.iter()).enumerate() {
                assert_eq!(addr.pack_id, PackId::from(1));
                let region = container_bytes(&container, *addr).unwrap_or_else(|| panic!("{name} {mname}: content {idx} not found"));
                assert!(read_all(&region) == it.data, "{name} {mname}: content {idx} differs");
            }
            for (idx, (addr, it)) in extra_addresses.iter().zip(extra_items.iter()).enumerate() {
                assert_eq!(addr.pack_id, PackId::from(2));
                let region = container_bytes(&container, *addr).unwrap_or_else(|| panic!("{name} {mname}: extra content {idx} not found"));
                assert!(read_all(&region) == it.data, "{name} {mname}: extra content {idx} differs");
            }
            // Count and addresses past the count
            let pack = container.get_pack(PackId::from(1)).unwrap().unwrap().unwrap();
            assert_eq!(pack.get_content_count().into_u64(), items.len() as u64);
            let pack = container.get_pack(PackId::from(2)).unwrap().unwrap().unwrap();
            assert_eq!(pack.get_content_count().into_u64(), extra_items.len() as u64);
            assert!(container_bytes(&container, ContentAddress::new(PackId::from(1), ContentIdx::from(items.len() as u32))).is_none());
            assert!(container_bytes(&container, ContentAddress::new(PackId::from(2), ContentIdx::from(extra_items.len() as u32))).is_none());
            assert!(container_bytes(&container, ContentAddress::new(PackId::from(2), ContentIdx::from(u32::MAX))).is_none());
            assert!(container.check().unwrap(), "{name} {mname}: container check");
        }
    }
}

// ---------------------------------------------------------------------------------------------
// H12: default compression levels (lzma preset 9 has a 64MiB dictionary, decoder has a memory
//      limit), Compression::default()
// ---------------------------------------------------------------------------------------------

#[test]
fn h12_default_levels() {
    #[allow(unused_mut)]
    let mut comps = vec![("default", Compression::default())];
    #[cfg(feature = "lzma")]
    comps.push(("lzma9", Compression::lzma()));
    #[cfg(feature = "zstd")]
    comps.push(("zstd22", deranged_levels::zstd(22)));
    for (name, comp) in comps {
        let items = vec![
            item(text(1, 100_000), Hint::Yes, Src::Mem),
            item(noise(2, 100_000), Hint::Yes, Src::Mem),
            item(text(3, 5 * MIB), Hint::Detect, Src::Mem),
        ];
        roundtrip(comp, Packaging::Alone, false, &items, &format!("default levels {name}"));
    }
}

// ---------------------------------------------------------------------------------------------
// H13: detection of compression is made on the first 4KiB only. Content which looks like
//      compressible but is not (and the opposite).
// ---------------------------------------------------------------------------------------------

#[test]
fn h13_misleading_head() {
    for (name, comp) in main_compressions() {
        let mut a = vec![0_u8; 4096];
        a.extend(noise(1, 5 * MIB));
        let mut b = noise(2, 4096);
        b.extend(text(2, 5 * MIB));
        let mut c = vec![0_u8; 4095];
        c.extend(noise(3, 70_000));
        let items = vec![
            item(a, Hint::Detect, Src::Mem),
            item(b, Hint::Detect, Src::File),
            item(c, Hint::Detect, Src::Range(1, 1)),
            item(noise(4, 10), Hint::Detect, Src::Mem), // 10 different bytes: low entropy measured
            item((0..=255).collect(), Hint::Detect, Src::Mem), // entropy is exactly 8
            item((0..64).collect(), Hint::Detect, Src::Mem), // entropy is exactly 6 (the limit)
            item((0..65).collect(), Hint::Detect, Src::Mem),
        ];
        for cached in [false, true] {
            roundtrip(comp, Packaging::Alone, cached, &items, &format!("misleading head {name} cached={cached}"));
        }
    }
}

// ---------------------------------------------------------------------------------------------
// H14: big duplicates (>= 4MiB: the deduplicating adder hashes them by streaming) given by
//      different kind of sources.
// ---------------------------------------------------------------------------------------------

#[test]
fn h14_big_duplicates() {
    for (name, comp) in main_compressions() {
        let big = text(77, 4 * MIB);
        let big2 = noise(78, 4 * MIB + 1);
        let almost = text(79, 4 * MIB - 1);
        let items = vec![
            item(big.clone(), Hint::Detect, Src::Mem),
            item(big2.clone(), Hint::Detect, Src::Range(9, 9)),
            item(almost.clone(), Hint::Yes, Src::File),
            item(big.clone(), Hint::No, Src::Range(100, 3)),
            item(big2.clone(), Hint::Yes, Src::Mem),
            item(almost.clone(), Hint::No, Src::Range(1, 0)),
            item(big.clone(), Hint::Yes, Src::File),
        ];
        let dir = tmpdir();
        let (reader, addresses) = build(dir.path(), comp, Packaging::Alone, true, &items);
        assert_eq!(addresses[0], addresses[3], "{name}");
        assert_eq!(addresses[0], addresses[6], "{name}");
        assert_eq!(addresses[1], addresses[4], "{name}");
        assert_eq!(addresses[2], addresses[5], "{name}");
        check_pack(reader, &addresses, &items, 3, &format!("big duplicates {name}"));
    }
}

// ---------------------------------------------------------------------------------------------
// H15: several sub-ranges of the same file, the handles being `try_clone` of one `File`
//      (they share the same file cursor in the kernel). Contents are read lazily (when the
//      cluster is closed), not when `add_content` is called.
// ---------------------------------------------------------------------------------------------

fn panic_message(e: Box<dyn std::any::Any + Send>) -> String {
    if let Some(s) = e.downcast_ref::<String>() {
        s.clone()
    } else if let Some(s) = e.downcast_ref::<&str>() {
        s.to_string()
    } else {
        "unknown panic".to_string()
    }
}

/// Read a content with a timeout (a broken cluster makes the reader wait forever).
fn read_with_timeout(pack: &std::sync::Arc<ContentPack>, idx: ContentIdx, what: &str) -> Vec<u8> {
    let (tx, rx) = std::sync::mpsc::channel();
    let pack = pack.clone();
    std::thread::spawn(move || {
        let region = pack.get_content(idx).unwrap().unwrap();
        let _ = tx.send(read_all(&region));
    });
    rx.recv_timeout(std::time::Duration::from_secs(20))
        .unwrap_or_else(|_| panic!("{what}: reading never ends (or reader panicked)"))
}

fn shared_handle_ranges(comp: Compression, hint: Hint, what: &str) {
    let dir = tmpdir();
    let big = text(7, 200_000);
    let p = dir.path().join("big.bin");
    std::fs::write(&p, &big).unwrap();
    let ranges = [(0_usize, 10_usize), (10, 5000), (5010, 100_000), (150_000, 50_000), (3, 9)];
    let pack_path = utf8(&dir.path().join("pack.jbkc"));
    let mut creator = ContentPackCreator::new(&pack_path, PackId::from(1), VendorId::from([0, 0, 0, 0]), Default::default(), comp).unwrap();
    let file = std::fs::File::open(&p).unwrap();
    let mut addresses = vec![];
    let mut expected = vec![];
    for (o, l) in ranges {
        let r = InputFile::new_range(file.try_clone().unwrap(), o as u64, Some(l as u64)).unwrap();
        addresses.push(creator.add_content(Box::new(r), hint.get()).unwrap());
        expected.push(big[o..o + l].to_vec());
    }
    creator.finalize().unwrap();
    let reader: Reader = FileSource::open(pack_path.as_std_path()).unwrap().into();
    let pack = std::sync::Arc::new(ContentPack::new(reader).unwrap());
    assert_eq!(pack.get_content_count().into_u64(), ranges.len() as u64);
    for (i, (a, e)) in addresses.iter().zip(expected.iter()).enumerate() {
        let got = read_with_timeout(&pack, a.content_id, what);
        assert_eq!(got.len(), e.len(), "{what}: len of content {i}");
        assert!(&got == e, "{what}: content {i} (range {:?}) differs at byte {:?}", ranges[i], first_diff(&got, e));
    }
}

#[test]
fn h15_ranges_sharing_one_file_handle_raw() {
    for (name, comp) in main_compressions() {
        shared_handle_ranges(comp, Hint::No, &format!("shared handle {name} raw"));
    }
}

#[test]
fn h15_ranges_sharing_one_file_handle_compressed() {
    let mut failures = vec![];
    for (name, comp) in main_compressions() {
        for hint in [Hint::Yes, Hint::Detect] {
            let what = format!("shared handle {name} {hint:?}");
            if let Err(e) = std::panic::catch_unwind(|| shared_handle_ranges(comp, hint, &what)) {
                failures.push(panic_message(e));
            }
        }
    }
    assert!(failures.is_empty(), "{} configurations fail:\n{}", failures.len(), failures.join("\n"));
}

// ---------------------------------------------------------------------------------------------
// H16: a reader which is not at its start when given to the creator (application sniffed the
//      first bytes and did not rewind). `InputReader::size()` still gives the full size and
//      InputReader is `Seek`. Whatever the library decides to store for this content, the
//      OTHER contents (given correctly) must read back identical.
// ---------------------------------------------------------------------------------------------

fn not_at_start(comp: Compression, hint: Hint, file: bool, what: &str) {
    let dir = tmpdir();
    let data = text(42, 20_000);
    let before = text(43, 1000);
    let after1 = text(44, 3000);
    let after2 = text(45, 3000);
    let pack_path = utf8(&dir.path().join("pack.jbkc"));
    let mut creator = ContentPackCreator::new(&pack_path, PackId::from(1), VendorId::from([0, 0, 0, 0]), Default::default(), comp).unwrap();
    let mut reader: Box<dyn InputReader> = if file {
        let p = dir.path().join("in.bin");
        std::fs::write(&p, &data).unwrap();
        Box::new(InputFile::open(&p).unwrap())
    } else {
        Box::new(Cursor::new(data.clone()))
    };
    let mut head = [0_u8; 16];
    reader.read_exact(&mut head).unwrap();
    let a_before = creator.add_content(Box::new(Cursor::new(before.clone())), hint.get()).unwrap();
    let a_data = creator.add_content(reader, hint.get()).unwrap();
    let a_after1 = creator.add_content(Box::new(Cursor::new(after1.clone())), hint.get()).unwrap();
    let a_after2 = creator.add_content(Box::new(Cursor::new(after2.clone())), hint.get()).unwrap();
    // Creation may refuse the input with an error, but not panic nor store something wrong.
    let finalized = std::panic::catch_unwind(std::panic::AssertUnwindSafe(|| creator.finalize()));
    match finalized {
        Err(_) => panic!("{what}: finalize panics"),
        Ok(Err(_)) => return, // A clean error is acceptable
        Ok(Ok(_)) => {}
    }
    let reader: Reader = FileSource::open(pack_path.as_std_path()).unwrap().into();
    let pack = std::sync::Arc::new(ContentPack::new(reader).unwrap());
    assert_eq!(pack.get_content_count().into_u64(), 4);
    let got = read_with_timeout(&pack, a_before.content_id, what);
    assert!(got == before, "{what}: content added before differs at {:?}", first_diff(&got, &before));
    let got = read_with_timeout(&pack, a_after1.content_id, what);
    assert!(got == after1, "{what}: content added after (1) differs at {:?}", first_diff(&got, &after1));
    let got = read_with_timeout(&pack, a_after2.content_id, what);
    assert!(got == after2, "{what}: content added after (2) differs at {:?}", first_diff(&got, &after2));
    let got = read_with_timeout(&pack, a_data.content_id, what);
    assert!(got == data, "{what}: the content itself differs at {:?} (len {} vs {})", first_diff(&got, &data), got.len(), data.len());
}

#[test]
fn h16_reader_not_at_start_detect() {
    for (name, comp) in main_compressions() {
        if matches!(comp, Compression::None) {
            continue;
        }
        for file in [false, true] {
            not_at_start(comp, Hint::Detect, file, &format!("not at start {name} Detect file={file}"));
        }
    }
}

#[test]
fn h16_reader_not_at_start_raw_file() {
    for (name, comp) in main_compressions() {
        not_at_start(comp, Hint::No, true, &format!("not at start {name} No file=true"));
    }
}

#[test]
fn h16_reader_not_at_start_raw_memory() {
    for (name, comp) in main_compressions() {
        not_at_start(comp, Hint::No, false, &format!("not at start {name} No file=false"));
    }
}

#[test]
fn h16_reader_not_at_start_compressed() {
    let mut failures = vec![];
    for (name, comp) in main_compressions() {
        if matches!(comp, Compression::None) {
            continue;
        }
        for file in [false, true] {
            let what = format!("not at start {name} Yes file={file}");
            if let Err(e) = std::panic::catch_unwind(|| not_at_start(comp, Hint::Yes, file, &what)) {
                failures.push(panic_message(e));
            }
        }
    }
    assert!(failures.is_empty(), "{} configurations fail:\n{}", failures.len(), failures.join("\n"));
}

// ---------------------------------------------------------------------------------------------
// H17: a cluster bigger than 4GiB (offsets on 5 bytes). Raw cluster (no size limit) and
//      compressed cluster (one content bigger than 4GiB).
//      Input is a sparse file, we check only some parts of the big content.
// ---------------------------------------------------------------------------------------------

fn more_than_4gib(comp: Compression, hint: Hint, what: &str) {
    let dir = tmpdir();
    let big_len: u64 = (1 << 32) + 1000;
    let p = dir.path().join("sparse.bin");
    let markers: Vec<(u64, Vec<u8>)> = vec![
        (0, b"HEAD of the big content".to_vec()),
        ((1 << 24) - 5, b"around 2^24".to_vec()),
        ((1 << 32) - 7, b"MIDDLE: around 2^32".to_vec()),
        (big_len - 4, b"TAIL".to_vec()),
    ];
    {
        let mut f = std::fs::File::create(&p).unwrap();
        f.set_len(big_len).unwrap();
        for (o, m) in &markers {
            f.seek(SeekFrom::Start(*o)).unwrap();
            f.write_all(m).unwrap();
        }
    }
    let small_a = text(1, 300);
    let small_b = text(2, 70_000);
    let small_c = noise(3, 5);
    let pack_path = utf8(&dir.path().join("pack.jbkc"));
    let mut creator = ContentPackCreator::new(&pack_path, PackId::from(1), VendorId::from([0, 0, 0, 0]), Default::default(), comp).unwrap();
    let a_a = creator.add_content(Box::new(Cursor::new(small_a.clone())), hint.get()).unwrap();
    let a_big = creator.add_content(Box::new(InputFile::open(&p).unwrap()), hint.get()).unwrap();
    let a_b = creator.add_content(Box::new(Cursor::new(small_b.clone())), hint.get()).unwrap();
    let a_c = creator.add_content(Box::new(Cursor::new(small_c.clone())), hint.get()).unwrap();
    let a_e = creator.add_content(Box::new(Cursor::new(vec![])), hint.get()).unwrap();
    creator.finalize().unwrap();
    std::fs::remove_file(&p).unwrap();

    let reader: Reader = FileSource::open(pack_path.as_std_path()).unwrap().into();
    let pack = ContentPack::new(reader).unwrap();
    assert_eq!(pack.get_content_count().into_u64(), 5, "{what}");
    let get = |a: ContentAddress| pack.get_content(a.content_id).unwrap().unwrap();
    assert!(read_all(&get(a_a)) == small_a, "{what}: small a");
    assert!(read_all(&get(a_b)) == small_b, "{what}: small b");
    assert!(read_all(&get(a_c)) == small_c, "{what}: small c");
    assert!(read_all(&get(a_e)).is_empty(), "{what}: empty");
    let big = get(a_big);
    assert_eq!(big.size().into_u64(), big_len, "{what}: big len");
    for (o, m) in &markers {
        let s = big.get_slice(Offset::from(*o), m.len()).unwrap();
        assert!(s.as_ref() == m.as_slice(), "{what}: marker at {o}");
        if *o > 10 {
            let s = big.get_slice(Offset::from(*o - 10), 10).unwrap();
            assert!(s.as_ref() == [0_u8; 10], "{what}: zeros before marker at {o}");
        }
    }
    // Stream the tail
    let cut = big.cut(Offset::from(big_len - 100), jubako::Size::from(100_u64));
    let mut v = vec![];
    cut.stream().read_to_end(&mut v).unwrap();
    assert_eq!(v.len(), 100);
    assert_eq!(&v[96..], b"TAIL");
    assert!(v[..96].iter().all(|b| *b == 0));
    assert!(pack.get_content(ContentIdx::from(5)).unwrap().is_none());
}

#[test]
fn h17_cluster_bigger_than_4gib_raw() {
    more_than_4gib(Compression::None, Hint::No, "4GiB raw");
}

#[cfg(feature = "zstd")]
#[test]
fn h17_cluster_bigger_than_4gib_zstd() {
    more_than_4gib(deranged_levels::zstd(1), Hint::Yes, "4GiB zstd");
    more_than_4gib(deranged_levels::zstd(1), Hint::Detect, "4GiB zstd detect");
}

// ---------------------------------------------------------------------------------------------
// H18: more than 2^20 clusters. A content address is (cluster index on 20 bits, blob index on
//      12 bits). A compressed cluster is closed when it would be bigger than 4MiB, so a pack
//      with more than 2TiB of (compressible) contents has more than 2^20 clusters.
//      Contents are `Cursor` on a shared static slice, so this needs no memory, but this needs
//      to compress 2TiB of zeros: IGNORED by default (several minutes with --release).
//      H18_CLUSTERS env var can be used to reduce the number of clusters (to measure).
// ---------------------------------------------------------------------------------------------

static ZEROS: [u8; 4 * MIB] = [0; 4 * MIB];

#[cfg(any(feature = "lz4", feature = "zstd"))]
#[test]
#[ignore]
fn h18_more_than_2_pow_20_clusters() {
    let nb_clusters: usize = std::env::var("H18_CLUSTERS")
        .ok()
        .map(|s| s.parse().unwrap())
        .unwrap_or((1 << 20) + 4);
    let comp = {
        #[cfg(feature = "lz4")]
        {
            deranged_levels::lz4(0)
        }
        #[cfg(all(not(feature = "lz4"), feature = "zstd"))]
        {
            deranged_levels::zstd(-22)
        }
    };
    let dir = tmpdir();
    let pack_path = utf8(&dir.path().join("pack.jbkc"));
    let mut creator = ContentPackCreator::new(&pack_path, PackId::from(1), VendorId::from([0, 0, 0, 0]), Default::default(), comp).unwrap();
    // Even contents are 4MiB of zeros, odd contents are a small tag. Each one is alone in its
    // cluster (4MiB + 8 > 4MiB).
    let tag = |i: usize| format!("tag{i:09}").into_bytes();
    let start = std::time::Instant::now();
    for i in 0..nb_clusters {
        let addr = if i % 2 == 0 {
            creator.add_content(Box::new(Cursor::new(&ZEROS[..])), CompHint::Yes).unwrap()
        } else {
            creator.add_content(Box::new(Cursor::new(tag(i))), CompHint::Yes).unwrap()
        };
        assert_eq!(addr.content_id, ContentIdx::from(i as u32));
        if i % 65536 == 0 {
            eprintln!("{i} contents added in {:?}", start.elapsed());
        }
    }
    creator.finalize().unwrap();
    eprintln!("pack created in {:?}", start.elapsed());
    let reader: Reader = FileSource::open(pack_path.as_std_path()).unwrap().into();
    let pack = ContentPack::new(reader).unwrap();
    assert_eq!(pack.get_content_count().into_u64(), nb_clusters as u64);
    // Check the tags (the interesting ones first: the last ones)
    let mut to_check: Vec<usize> = (0..nb_clusters).rev().filter(|i| i % 2 == 1).take(10).collect();
    to_check.extend((0..nb_clusters).filter(|i| i % 2 == 1).step_by(1001));
    for i in to_check {
        let region = pack.get_content(ContentIdx::from(i as u32)).unwrap().unwrap();
        let got = read_all(&region);
        assert!(
            got == tag(i),
            "content {i} reads back as {:?} instead of {:?}",
            String::from_utf8_lossy(&got[..got.len().min(20)]),
            String::from_utf8_lossy(&tag(i))
        );
    }
    // And some zeros
    for i in [0, 2, nb_clusters - 1 - (nb_clusters - 1) % 2] {
        let region = pack.get_content(ContentIdx::from(i as u32)).unwrap().unwrap();
        assert_eq!(region.size().into_u64(), 4 * MIB as u64, "size of content {i}");
        assert!(read_all(&region).iter().all(|b| *b == 0), "content {i}");
    }
}

// ---------------------------------------------------------------------------------------------
// H19: other packagings: a content pack copied in a container with `add_pack`, and a
//      one-file container appended to foreign data (found by its tail header).
// ---------------------------------------------------------------------------------------------

#[test]
fn h19_pack_copied_in_container() {
    for (name, comp) in main_compressions() {
        let dir = tmpdir();
        let items = mixed_items(40, 21);
        // Create the pack alone
        let pack_path = utf8(&dir.path().join("pack.jbkc"));
        let mut creator = ContentPackCreator::new(&pack_path, PackId::from(1), VendorId::from([1, 2, 3, 4]), Default::default(), comp).unwrap();
        let addresses = add_all(&mut creator, dir.path(), &items);
        let (_f, pack_data) = creator.finalize().unwrap();
        // Copy it in a container, after another pack
        let container_path = utf8(&dir.path().join("container.jbk"));
        let mut container = ContainerPackCreator::new(&container_path, Default::default()).unwrap();
        let other_path = utf8(&dir.path().join("other.jbkc"));
        let mut other = ContentPackCreator::new(&other_path, PackId::from(2), VendorId::from([1, 2, 3, 4]), Default::default(), comp).unwrap();
        other.add_content(Box::new(Cursor::new(text(5, 12345))), CompHint::Detect).unwrap();
        let (_f, other_data) = other.finalize().unwrap();
        container.add_pack(other_data.uuid, &mut std::fs::File::open(&other_path).unwrap()).unwrap();
        container.add_pack(pack_data.uuid, &mut std::fs::File::open(&pack_path).unwrap()).unwrap();
        container.finalize().unwrap();
        let reader: Reader = FileSource::open(container_path.as_std_path()).unwrap().into();
        let container = ContainerPack::new(reader).unwrap();
        let reader = container.get_pack_reader(&pack_data.uuid).unwrap();
        check_pack(reader, &addresses, &items, items.len(), &format!("copied in container {name}"));
    }
}

#[test]
fn h19_container_appended_to_foreign_data() {
    use jubako::creator::{BasicCreator, ConcatMode};
    for (name, comp) in main_compressions() {
        for prefix_len in [1_usize, 63, 64, 65, 4095, 4096, 100_001] {
            let dir = tmpdir();
            let out = utf8(&dir.path().join("archive.jbk"));
            let mut creator = BasicCreator::new(&out, ConcatMode::OneFile, VendorId::from([9, 9, 9, 9]), comp, std::sync::Arc::new(())).unwrap();
            let items = mixed_items(30, 31);
            let addresses = add_all(&mut creator, dir.path(), &items);
            creator.finalize(Box::new(NoEntries), vec![]).unwrap();
            // Append the archive to some foreign data (as a self extracting program does)
            let archive = std::fs::read(&out).unwrap();
            let sfx = dir.path().join("sfx.bin");
            let mut data = noise(prefix_len as u64, prefix_len);
            data.extend_from_slice(&archive);
            std::fs::write(&sfx, &data).unwrap();

            let container = jubako::reader::Container::new(&sfx).unwrap();
            for (idx, (addr, it)) in addresses.iter().zip(items.iter()).enumerate() {
                let region = container_bytes(&container, *addr).unwrap_or_else(|| panic!("{name} prefix={prefix_len}: content {idx} not found"));
                assert!(read_all(&region) == it.data, "{name} prefix={prefix_len}: content {idx} differs");
            }
            let pack = container.get_pack(PackId::from(1)).unwrap().unwrap().unwrap();
            assert_eq!(pack.get_content_count().into_u64(), items.len() as u64);
            assert!(container_bytes(&container, ContentAddress::new(PackId::from(1), ContentIdx::from(items.len() as u32))).is_none());
        }
    }
}

// ---------------------------------------------------------------------------------------------
// H20: the deduplicating adder on top of BasicCreator, `new_range` up to the end of file
//      (size: None), regions outliving the pack.
// ---------------------------------------------------------------------------------------------

#[test]
fn h20_misc() {
    use jubako::creator::{BasicCreator, ConcatMode};
    for (name, comp) in main_compressions() {
        let dir = tmpdir();
        let out = utf8(&dir.path().join("archive.jbk"));
        let creator = BasicCreator::new(&out, ConcatMode::OneFile, VendorId::from([9, 9, 9, 9]), comp, std::sync::Arc::new(())).unwrap();
        let mut cached = CachedContentAdder::new(creator, Rc::new(()));
        let mut items = mixed_items(30, 41);
        items.extend(mixed_items(30, 41));
        let mut addresses = add_all(&mut cached, dir.path(), &items);
        // A range up to the end of file
        let p = dir.path().join("to_end.bin");
        let data = text(8, 10_000);
        std::fs::write(&p, &data).unwrap();
        for hint in [Hint::Yes, Hint::No, Hint::Detect] {
            let r = InputFile::new_range(std::fs::File::open(&p).unwrap(), 1234, None).unwrap();
            assert_eq!(r.size().into_u64(), 10_000 - 1234);
            addresses.push(cached.add_content(Box::new(r), hint.get()).unwrap());
            items.push(item(data[1234..].to_vec(), hint, Src::Mem));
        }
        let creator = cached.into_inner();
        creator.finalize(Box::new(NoEntries), vec![]).unwrap();
        let container = jubako::reader::Container::new(out.as_std_path()).unwrap();
        let regions: Vec<ByteRegion> = addresses.iter().map(|a| container_bytes(&container, *a).unwrap()).collect();
        let count = container.get_pack(PackId::from(1)).unwrap().unwrap().unwrap().get_content_count().into_u64();
        let mut uniq = std::collections::HashSet::new();
        for it in &items {
            uniq.insert(it.data.clone());
        }
        assert_eq!(count, uniq.len() as u64, "{name}: count");
        // Regions outlive the container (and the file is unlinked)
        drop(container);
        std::fs::remove_file(&out).unwrap();
        for (idx, (region, it)) in regions.iter().zip(items.iter()).enumerate() {
            assert!(read_all(region) == it.data, "{name}: content {idx} differs");
        }
    }
}
