//! Bug hunt for property C14: the bytes written by the creator follow the on-disk layout
//! as decoded by an independent decoder (module `dec`, sharing no code with the library),
//! and that decoder recovers the logical content that was written.
//!
//! Each test PASSES when the property holds and FAILS when it is violated.

#![allow(dead_code)]
#![allow(clippy::all)]

use jubako as jbk;

use jbk::creator::{self, schema};
use jbk::reader::{EntryTrait, Range};
use jbk::Pack;
use std::collections::HashMap;
use std::io::{Read, Seek, SeekFrom, Write};
use std::path::{Path, PathBuf};

// ---------------------------------------------------------------------------------------------
// Independent BLAKE3 (portable port of the reference algorithm, whole input in memory)
// ---------------------------------------------------------------------------------------------
mod b3 {
    const IV: [u32; 8] = [
        0x6A09E667, 0xBB67AE85, 0x3C6EF372, 0xA54FF53A, 0x510E527F, 0x9B05688C, 0x1F83D9AB,
        0x5BE0CD19,
    ];
    const PERM: [usize; 16] = [2, 6, 3, 10, 7, 0, 4, 13, 1, 11, 12, 5, 9, 14, 15, 8];
    const CHUNK_START: u32 = 1;
    const CHUNK_END: u32 = 2;
    const PARENT: u32 = 4;
    const ROOT: u32 = 8;

    fn g(s: &mut [u32; 16], a: usize, b: usize, c: usize, d: usize, mx: u32, my: u32) {
        s[a] = s[a].wrapping_add(s[b]).wrapping_add(mx);
        s[d] = (s[d] ^ s[a]).rotate_right(16);
        s[c] = s[c].wrapping_add(s[d]);
        s[b] = (s[b] ^ s[c]).rotate_right(12);
        s[a] = s[a].wrapping_add(s[b]).wrapping_add(my);
        s[d] = (s[d] ^ s[a]).rotate_right(8);
        s[c] = s[c].wrapping_add(s[d]);
        s[b] = (s[b] ^ s[c]).rotate_right(7);
    }

    fn round(s: &mut [u32; 16], m: &[u32; 16]) {
        g(s, 0, 4, 8, 12, m[0], m[1]);
        g(s, 1, 5, 9, 13, m[2], m[3]);
        g(s, 2, 6, 10, 14, m[4], m[5]);
        g(s, 3, 7, 11, 15, m[6], m[7]);
        g(s, 0, 5, 10, 15, m[8], m[9]);
        g(s, 1, 6, 11, 12, m[10], m[11]);
        g(s, 2, 7, 8, 13, m[12], m[13]);
        g(s, 3, 4, 9, 14, m[14], m[15]);
    }

    fn compress(cv: &[u32; 8], block: &[u32; 16], counter: u64, block_len: u32, flags: u32) -> [u32; 16] {
        let mut s = [
            cv[0], cv[1], cv[2], cv[3], cv[4], cv[5], cv[6], cv[7], IV[0], IV[1], IV[2], IV[3],
            counter as u32,
            (counter >> 32) as u32,
            block_len,
            flags,
        ];
        let mut m = *block;
        for r in 0..7 {
            round(&mut s, &m);
            if r != 6 {
                let mut p = [0u32; 16];
                for i in 0..16 {
                    p[i] = m[PERM[i]];
                }
                m = p;
            }
        }
        for i in 0..8 {
            s[i] ^= s[i + 8];
            s[i + 8] ^= cv[i];
        }
        s
    }

    fn words(block: &[u8]) -> [u32; 16] {
        let mut padded = [0u8; 64];
        padded[..block.len()].copy_from_slice(block);
        let mut w = [0u32; 16];
        for i in 0..16 {
            w[i] = u32::from_le_bytes([padded[4 * i], padded[4 * i + 1], padded[4 * i + 2], padded[4 * i + 3]]);
        }
        w
    }

    fn first8(s: [u32; 16]) -> [u32; 8] {
        [s[0], s[1], s[2], s[3], s[4], s[5], s[6], s[7]]
    }

    fn chunk(data: &[u8], counter: u64, root: bool) -> [u32; 8] {
        assert!(data.len() <= 1024);
        let mut cv = IV;
        let nb_blocks = std::cmp::max(1, (data.len() + 63) / 64);
        for i in 0..nb_blocks {
            let start = i * 64;
            let end = std::cmp::min(data.len(), start + 64);
            let block = &data[start..end];
            let mut flags = 0;
            if i == 0 {
                flags |= CHUNK_START;
            }
            if i == nb_blocks - 1 {
                flags |= CHUNK_END;
                if root {
                    flags |= ROOT;
                }
            }
            cv = first8(compress(&cv, &words(block), counter, block.len() as u32, flags));
        }
        cv
    }

    fn left_len(len: usize) -> usize {
        // Largest power of two number of chunks, strictly less than the whole
        let full_chunks = (len - 1) / 1024;
        let mut p = 1usize;
        while p * 2 <= full_chunks {
            p *= 2;
        }
        p * 1024
    }

    fn subtree(data: &[u8], counter: u64, root: bool) -> [u32; 8] {
        if data.len() <= 1024 {
            return chunk(data, counter, root);
        }
        let l = left_len(data.len());
        let left = subtree(&data[..l], counter, false);
        let right = subtree(&data[l..], counter + (l / 1024) as u64, false);
        let mut block = [0u32; 16];
        block[..8].copy_from_slice(&left);
        block[8..].copy_from_slice(&right);
        let flags = PARENT | if root { ROOT } else { 0 };
        first8(compress(&IV, &block, 0, 64, flags))
    }

    pub fn hash(data: &[u8]) -> [u8; 32] {
        let cv = subtree(data, 0, true);
        let mut out = [0u8; 32];
        for i in 0..8 {
            out[4 * i..4 * i + 4].copy_from_slice(&cv[i].to_le_bytes());
        }
        out
    }
}

// ---------------------------------------------------------------------------------------------
// Independent decoder of the on-disk layout
// ---------------------------------------------------------------------------------------------
mod dec {
    pub type R<T> = Result<T, String>;

    /// CRC-32C polynomial (0x1EDC6F41), MSB first, init 0xFFFFFFFF, no final xor, stored big endian
    pub fn crc(data: &[u8]) -> u32 {
        static TABLE: std::sync::OnceLock<[u32; 256]> = std::sync::OnceLock::new();
        let table = TABLE.get_or_init(|| {
            let mut t = [0u32; 256];
            for i in 0..256u32 {
                let mut c = i << 24;
                for _ in 0..8 {
                    c = if c & 0x8000_0000 != 0 { (c << 1) ^ 0x1EDC_6F41 } else { c << 1 };
                }
                t[i as usize] = c;
            }
            t
        });
        let mut crc: u32 = 0xFFFF_FFFF;
        for &b in data {
            crc = (crc << 8) ^ table[(((crc >> 24) as u8) ^ b) as usize];
        }
        crc
    }

    /// A block is `size` bytes followed by 4 bytes of CRC.
    pub fn block(buf: &[u8], off: u64, size: u64) -> R<&[u8]> {
        let end = off
            .checked_add(size)
            .and_then(|e| e.checked_add(4))
            .ok_or_else(|| format!("block overflow {off}+{size}"))?;
        if end > buf.len() as u64 {
            return Err(format!("block [{off}, {off}+{size}+4] outside of the pack ({})", buf.len()));
        }
        let data = &buf[off as usize..(off + size) as usize];
        let stored = u32::from_be_bytes(buf[(off + size) as usize..end as usize].try_into().unwrap());
        if crc(data) != stored {
            return Err(format!("bad crc for block at {off} (size {size})"));
        }
        Ok(data)
    }

    pub struct Cur<'a> {
        pub buf: &'a [u8],
        pub pos: usize,
    }

    impl<'a> Cur<'a> {
        pub fn new(buf: &'a [u8]) -> Self {
            Self { buf, pos: 0 }
        }
        pub fn bytes(&mut self, n: usize) -> R<&'a [u8]> {
            if self.pos + n > self.buf.len() {
                return Err(format!("read {n} at {} outside of {}", self.pos, self.buf.len()));
            }
            let s = &self.buf[self.pos..self.pos + n];
            self.pos += n;
            Ok(s)
        }
        pub fn un(&mut self, n: usize) -> R<u64> {
            let b = self.bytes(n)?;
            let mut v = 0u64;
            for (i, x) in b.iter().enumerate() {
                v |= (*x as u64) << (8 * i);
            }
            Ok(v)
        }
        pub fn sn(&mut self, n: usize) -> R<i64> {
            let v = self.un(n)?;
            if n == 8 {
                return Ok(v as i64);
            }
            let sign = 1u64 << (8 * n - 1);
            if v & sign != 0 {
                Ok((v as i64) - (1i64 << (8 * n)))
            } else {
                Ok(v as i64)
            }
        }
        pub fn u8(&mut self) -> R<u8> {
            Ok(self.un(1)? as u8)
        }
        pub fn u16(&mut self) -> R<u16> {
            Ok(self.un(2)? as u16)
        }
        pub fn u32(&mut self) -> R<u32> {
            Ok(self.un(4)? as u32)
        }
        pub fn u64(&mut self) -> R<u64> {
            self.un(8)
        }
        pub fn zeros(&mut self, n: usize) -> R<()> {
            let at = self.pos;
            if self.bytes(n)?.iter().any(|b| *b != 0) {
                return Err(format!("reserved bytes at {at} are not zero"));
            }
            Ok(())
        }
        pub fn pstring(&mut self) -> R<String> {
            let len = self.u8()? as usize;
            let b = self.bytes(len)?;
            String::from_utf8(b.to_vec()).map_err(|e| e.to_string())
        }
        pub fn end(&self) -> R<()> {
            if self.pos != self.buf.len() {
                return Err(format!("{} bytes left over in block", self.buf.len() - self.pos));
            }
            Ok(())
        }
    }

    #[derive(Debug, Clone, PartialEq)]
    pub struct PackHeader {
        pub kind: u8,
        pub vendor: [u8; 4],
        pub uuid: [u8; 16],
        pub size: u64,
        pub check_pos: u64,
    }

    pub fn pack_header_from(block60: &[u8]) -> R<PackHeader> {
        let mut c = Cur::new(block60);
        if c.bytes(3)? != b"jbk" {
            return Err("bad magic".into());
        }
        let kind = c.u8()?;
        let vendor: [u8; 4] = c.bytes(4)?.try_into().unwrap();
        let major = c.u8()?;
        let minor = c.u8()?;
        if (major, minor) != (0, 2) {
            return Err(format!("bad version {major}.{minor}"));
        }
        let uuid: [u8; 16] = c.bytes(16)?.try_into().unwrap();
        let flags = c.u8()?;
        if flags != 0 {
            return Err("flags must be 0".into());
        }
        c.zeros(5)?;
        let size = c.u64()?;
        let check_pos = c.u64()?;
        c.zeros(12)?;
        c.end()?;
        Ok(PackHeader {
            kind,
            vendor,
            uuid,
            size,
            check_pos,
        })
    }

    /// Check the frame of a pack: header, declared size, check info, tail mirror.
    /// Returns the header and the blake3 hash stored (if any).
    pub fn pack_frame(pack: &[u8]) -> R<(PackHeader, Option<[u8; 32]>)> {
        let h = pack_header_from(block(pack, 0, 60)?)?;
        if h.size != pack.len() as u64 {
            return Err(format!("declared pack size {} != actual size {}", h.size, pack.len()));
        }
        if h.size < 64 + 64 + 5 {
            return Err("pack too small".into());
        }
        // Tail is the mirror of the 64 bytes of the header
        let mut tail = pack[pack.len() - 64..].to_vec();
        tail.reverse();
        if tail != pack[..64] {
            return Err("tail is not the mirror of the header".into());
        }
        // check info is just before the tail
        let check_block_size = h
            .size
            .checked_sub(64 + 4)
            .and_then(|s| s.checked_sub(h.check_pos))
            .ok_or("check pos after end")?;
        let check = block(pack, h.check_pos, check_block_size)?;
        let hash = match check[0] {
            0 => {
                if check.len() != 1 {
                    return Err("check kind None must be 1 byte".into());
                }
                None
            }
            1 => {
                if check.len() != 33 {
                    return Err("check kind blake3 must be 33 bytes".into());
                }
                Some(check[1..].try_into().unwrap())
            }
            k => return Err(format!("Unknown check kind {k}")),
        };
        Ok((h, hash))
    }

    pub fn sized_offset(v: u64) -> (u64, u64) {
        (v >> 16, v & 0xFFFF)
    }

    // ----- Content pack -----
    #[derive(Debug)]
    pub struct Cluster {
        pub comp: u8,
        pub raw_start: u64,
        pub raw_size: u64,
        pub data_size: u64,
        pub offsets: Vec<u64>, // blob_count + 1
    }

    #[derive(Debug)]
    pub struct ContentPack {
        pub header: PackHeader,
        pub free_data: [u8; 24],
        pub infos: Vec<(u32, u16)>,
        pub clusters: Vec<Cluster>,
    }

    pub fn content_pack(pack: &[u8]) -> R<ContentPack> {
        let (header, hash) = pack_frame(pack)?;
        if header.kind != b'c' {
            return Err("not a content pack".into());
        }
        let hash = hash.ok_or("content pack must have a blake3")?;
        if super::b3::hash(&pack[..header.check_pos as usize]) != hash {
            return Err("blake3 of content pack differs".into());
        }
        let mut c = Cur::new(block(pack, 64, 60)?);
        let content_ptr_pos = c.u64()?;
        let cluster_ptr_pos = c.u64()?;
        let content_count = c.u32()?;
        let cluster_count = c.u32()?;
        c.zeros(12)?;
        let free_data: [u8; 24] = c.bytes(24)?.try_into().unwrap();
        c.end()?;

        let mut clusters = vec![];
        let mut cp = Cur::new(block(pack, cluster_ptr_pos, 8 * cluster_count as u64)?);
        for _ in 0..cluster_count {
            let (off, size) = sized_offset(cp.u64()?);
            let mut t = Cur::new(block(pack, off, size)?);
            let comp = t.u8()?;
            if comp > 3 {
                return Err(format!("bad compression {comp}"));
            }
            let offset_size = t.u8()? as usize;
            if !(1..=8).contains(&offset_size) {
                return Err(format!("bad offset size {offset_size}"));
            }
            let blob_count = t.u16()? as usize;
            if blob_count == 0 || blob_count > 4096 {
                return Err(format!("bad blob count {blob_count}"));
            }
            let raw_size = t.un(offset_size)?;
            let data_size = t.un(offset_size)?;
            let mut offsets = vec![0u64];
            for _ in 1..blob_count {
                let o = t.un(offset_size)?;
                if o < *offsets.last().unwrap() || o > data_size {
                    return Err(format!("blob offset {o} not increasing or > {data_size}"));
                }
                offsets.push(o);
            }
            offsets.push(data_size);
            t.end()?;
            if comp == 0 && raw_size != data_size {
                return Err("raw size != data size for uncompressed cluster".into());
            }
            let raw_start = off.checked_sub(raw_size).ok_or("cluster data before start")?;
            if raw_start < 128 {
                return Err("cluster data inside headers".into());
            }
            clusters.push(Cluster {
                comp,
                raw_start,
                raw_size,
                data_size,
                offsets,
            });
        }
        let mut infos = vec![];
        let mut ip = Cur::new(block(pack, content_ptr_pos, 4 * content_count as u64)?);
        for _ in 0..content_count {
            let v = ip.u32()?;
            let cluster = v >> 12;
            let blob = (v & 0xFFF) as u16;
            let cl = clusters
                .get(cluster as usize)
                .ok_or_else(|| format!("cluster {cluster} does not exist"))?;
            if blob as usize >= cl.offsets.len() - 1 {
                return Err(format!("blob {blob} does not exist in cluster {cluster}"));
            }
            infos.push((cluster, blob));
        }
        Ok(ContentPack {
            header,
            free_data,
            infos,
            clusters,
        })
    }

    impl ContentPack {
        /// Only for not compressed cluster
        pub fn content<'a>(&self, pack: &'a [u8], idx: usize) -> R<&'a [u8]> {
            let (cluster, blob) = self.infos[idx];
            let cl = &self.clusters[cluster as usize];
            if cl.comp != 0 {
                return Err("compressed".into());
            }
            let s = cl.raw_start + cl.offsets[blob as usize];
            let e = cl.raw_start + cl.offsets[blob as usize + 1];
            Ok(&pack[s as usize..e as usize])
        }
    }

    // ----- Directory pack -----
    #[derive(Debug, Clone, PartialEq)]
    pub enum Val {
        U(u64),
        S(i64),
        Content(u16, u32),
        Array(Vec<u8>),
    }

    #[derive(Debug, Clone)]
    pub enum Kind {
        Padding,
        Content {
            pack_size: usize,
            content_size: usize,
            default_pack: Option<u16>,
        },
        UInt {
            size: usize,
            default: Option<u64>,
        },
        SInt {
            size: usize,
            default: Option<i64>,
        },
        Array {
            len_size: usize,
            fixed: usize,
            key_size: usize,
            store: Option<u8>,
        },
        VariantId,
    }

    #[derive(Debug, Clone)]
    pub struct Prop {
        pub name: String,
        pub kind: Kind,
        pub size: usize,
    }

    #[derive(Debug)]
    pub enum ValueStore {
        Plain(Vec<u8>),
        Indexed(Vec<u8>, Vec<u64>),
    }

    impl ValueStore {
        fn get(&self, id: u64, size: Option<u64>) -> R<Vec<u8>> {
            match self {
                ValueStore::Plain(data) => {
                    let size = size.ok_or("plain store need a size")?;
                    let end = id.checked_add(size).ok_or("overflow")?;
                    if end > data.len() as u64 {
                        return Err(format!("plain value [{id}, {end}] outside of {}", data.len()));
                    }
                    Ok(data[id as usize..end as usize].to_vec())
                }
                ValueStore::Indexed(data, offsets) => {
                    if id as usize + 1 >= offsets.len() {
                        return Err(format!("no value {id} in indexed store"));
                    }
                    let start = offsets[id as usize];
                    let end = match size {
                        Some(s) => start + s,
                        None => offsets[id as usize + 1],
                    };
                    if end > data.len() as u64 {
                        return Err("indexed value outside".into());
                    }
                    Ok(data[start as usize..end as usize].to_vec())
                }
            }
        }
    }

    #[derive(Debug)]
    pub struct EntryStore {
        pub entry_size: usize,
        pub entry_count: u32,
        pub common: Vec<Prop>,
        pub variants: Vec<(String, Vec<Prop>)>,
        pub data: Vec<u8>,
    }

    #[derive(Debug)]
    pub struct Index {
        pub store_id: u32,
        pub count: u32,
        pub offset: u32,
        pub free_data: [u8; 4],
        pub key: u8,
        pub name: String,
    }

    #[derive(Debug)]
    pub struct DirectoryPack {
        pub header: PackHeader,
        pub free_data: [u8; 24],
        pub indexes: Vec<Index>,
        pub entry_stores: Vec<EntryStore>,
        pub value_stores: Vec<ValueStore>,
    }

    fn prop(c: &mut Cur) -> R<Prop> {
        let info = c.u8()?;
        let ptype = info >> 4;
        let pdata = info & 0x0F;
        Ok(match ptype {
            0b0000 => Prop {
                name: String::new(),
                kind: Kind::Padding,
                size: pdata as usize + 1,
            },
            0b0001 => {
                let pack_size = ((pdata >> 2) & 1) as usize + 1;
                let content_size = (pdata & 0b11) as usize + 1;
                let default_pack = if pdata & 0b1000 != 0 {
                    Some(c.un(pack_size)? as u16)
                } else {
                    None
                };
                let name = c.pstring()?;
                Prop {
                    name,
                    size: content_size + if default_pack.is_some() { 0 } else { pack_size },
                    kind: Kind::Content {
                        pack_size,
                        content_size,
                        default_pack,
                    },
                }
            }
            0b0010 => {
                let size = (pdata & 0b111) as usize + 1;
                let default = if pdata & 0b1000 != 0 { Some(c.un(size)?) } else { None };
                let name = c.pstring()?;
                Prop {
                    name,
                    size: if default.is_some() { 0 } else { size },
                    kind: Kind::UInt { size, default },
                }
            }
            0b0011 => {
                let size = (pdata & 0b111) as usize + 1;
                let default = if pdata & 0b1000 != 0 { Some(c.sn(size)?) } else { None };
                let name = c.pstring()?;
                Prop {
                    name,
                    size: if default.is_some() { 0 } else { size },
                    kind: Kind::SInt { size, default },
                }
            }
            0b0101 => {
                if pdata & 0b1000 != 0 {
                    return Err("default array not expected from the creator".into());
                }
                if pdata & 0b0100 != 0 {
                    return Err("reserved bit set in array property".into());
                }
                let len_size = (pdata & 0b11) as usize;
                let complement = c.u8()?;
                let fixed = (complement & 0b11111) as usize;
                let key_size = (complement >> 5) as usize;
                let store = if key_size != 0 { Some(c.u8()?) } else { None };
                let name = c.pstring()?;
                Prop {
                    name,
                    size: len_size + fixed + key_size,
                    kind: Kind::Array {
                        len_size,
                        fixed,
                        key_size,
                        store,
                    },
                }
            }
            0b1000 => {
                if pdata != 0 {
                    return Err("variant id must have 0 as data".into());
                }
                Prop {
                    name: c.pstring()?,
                    kind: Kind::VariantId,
                    size: 1,
                }
            }
            t => return Err(format!("unknown property type {t:#b}")),
        })
    }

    fn value_store(pack: &[u8], off: u64, size: u64) -> R<ValueStore> {
        let mut t = Cur::new(block(pack, off, size)?);
        match t.u8()? {
            0 => {
                let data_size = t.u64()?;
                t.end()?;
                let start = off
                    .checked_sub(data_size + 4)
                    .ok_or("value store data before start of pack")?;
                Ok(ValueStore::Plain(block(pack, start, data_size)?.to_vec()))
            }
            1 => {
                let count = t.u64()?;
                let offset_size = t.u8()? as usize;
                if !(1..=8).contains(&offset_size) {
                    return Err("bad offset size in value store".into());
                }
                let data_size = t.un(offset_size)?;
                let mut offsets = vec![];
                if count > 0 {
                    offsets.push(0);
                    for _ in 1..count {
                        let o = t.un(offset_size)?;
                        if o < *offsets.last().unwrap() || o > data_size {
                            return Err("value offsets not increasing".into());
                        }
                        offsets.push(o);
                    }
                }
                offsets.push(data_size);
                t.end()?;
                let start = off
                    .checked_sub(data_size + 4)
                    .ok_or("value store data before start of pack")?;
                Ok(ValueStore::Indexed(block(pack, start, data_size)?.to_vec(), offsets))
            }
            k => Err(format!("unknown value store kind {k}")),
        }
    }

    fn entry_store(pack: &[u8], off: u64, size: u64) -> R<EntryStore> {
        let mut t = Cur::new(block(pack, off, size)?);
        if t.u8()? != 0 {
            return Err("only plain entry store".into());
        }
        let entry_count = t.u32()?;
        let flag = t.u8()?;
        if flag != 0 {
            return Err("flag must be 0".into());
        }
        let entry_size = t.u16()? as usize;
        let variant_count = t.u8()? as usize;
        let prop_count = t.u8()? as usize;
        let mut props = vec![];
        for _ in 0..prop_count {
            props.push(prop(&mut t)?);
        }
        t.end()?;
        let mut common = vec![];
        let mut variants: Vec<(String, Vec<Prop>)> = vec![];
        for p in props {
            if let Kind::VariantId = p.kind {
                variants.push((p.name.clone(), vec![]));
            } else if let Some(v) = variants.last_mut() {
                v.1.push(p);
            } else {
                common.push(p);
            }
        }
        if variants.len() != variant_count {
            return Err(format!("declared {variant_count} variants, found {}", variants.len()));
        }
        let common_size: usize = common.iter().map(|p| p.size).sum();
        if variants.is_empty() {
            if common_size != entry_size {
                return Err(format!("entry size {entry_size} != sum of properties {common_size}"));
            }
        } else {
            for (n, v) in &variants {
                let s: usize = v.iter().map(|p| p.size).sum();
                if common_size + 1 + s != entry_size {
                    return Err(format!(
                        "variant {n}: entry size {entry_size} != {common_size} + 1 + {s}"
                    ));
                }
            }
        }
        let data_size = entry_size as u64 * entry_count as u64;
        let start = off.checked_sub(data_size + 4).ok_or("entry data before start")?;
        let data = block(pack, start, data_size)?.to_vec();
        Ok(EntryStore {
            entry_size,
            entry_count,
            common,
            variants,
            data,
        })
    }

    pub fn directory_pack(pack: &[u8]) -> R<DirectoryPack> {
        let (header, hash) = pack_frame(pack)?;
        if header.kind != b'd' {
            return Err("not a directory pack".into());
        }
        let hash = hash.ok_or("directory pack must have a blake3")?;
        if super::b3::hash(&pack[..header.check_pos as usize]) != hash {
            return Err("blake3 of directory pack differs".into());
        }
        let mut c = Cur::new(block(pack, 64, 60)?);
        let index_ptr_pos = c.u64()?;
        let entry_store_ptr_pos = c.u64()?;
        let value_store_ptr_pos = c.u64()?;
        let index_count = c.u32()?;
        let entry_store_count = c.u32()?;
        let value_store_count = c.u8()?;
        c.zeros(3)?;
        let free_data: [u8; 24] = c.bytes(24)?.try_into().unwrap();
        c.end()?;

        let mut indexes = vec![];
        let mut p = Cur::new(block(pack, index_ptr_pos, 8 * index_count as u64)?);
        for _ in 0..index_count {
            let (off, size) = sized_offset(p.u64()?);
            let mut t = Cur::new(block(pack, off, size)?);
            let store_id = t.u32()?;
            let count = t.u32()?;
            let offset = t.u32()?;
            let free_data: [u8; 4] = t.bytes(4)?.try_into().unwrap();
            let key = t.u8()?;
            let name = t.pstring()?;
            t.end()?;
            indexes.push(Index {
                store_id,
                count,
                offset,
                free_data,
                key,
                name,
            });
        }
        let mut value_stores = vec![];
        let mut p = Cur::new(block(pack, value_store_ptr_pos, 8 * value_store_count as u64)?);
        for _ in 0..value_store_count {
            let (off, size) = sized_offset(p.u64()?);
            value_stores.push(value_store(pack, off, size)?);
        }
        let mut entry_stores = vec![];
        let mut p = Cur::new(block(pack, entry_store_ptr_pos, 8 * entry_store_count as u64)?);
        for _ in 0..entry_store_count {
            let (off, size) = sized_offset(p.u64()?);
            entry_stores.push(entry_store(pack, off, size)?);
        }
        Ok(DirectoryPack {
            header,
            free_data,
            indexes,
            entry_stores,
            value_stores,
        })
    }

    impl DirectoryPack {
        fn decode_props(&self, props: &[Prop], c: &mut Cur, out: &mut Vec<(String, Val)>) -> R<()> {
            for p in props {
                match &p.kind {
                    Kind::Padding => {
                        c.bytes(p.size)?;
                    }
                    Kind::VariantId => unreachable!(),
                    Kind::Content {
                        pack_size,
                        content_size,
                        default_pack,
                    } => {
                        let pack = match default_pack {
                            Some(d) => *d,
                            None => c.un(*pack_size)? as u16,
                        };
                        let content = c.un(*content_size)? as u32;
                        out.push((p.name.clone(), Val::Content(pack, content)));
                    }
                    Kind::UInt { size, default } => {
                        let v = match default {
                            Some(d) => *d,
                            None => c.un(*size)?,
                        };
                        out.push((p.name.clone(), Val::U(v)));
                    }
                    Kind::SInt { size, default } => {
                        let v = match default {
                            Some(d) => *d,
                            None => c.sn(*size)?,
                        };
                        out.push((p.name.clone(), Val::S(v)));
                    }
                    Kind::Array {
                        len_size,
                        fixed,
                        key_size,
                        store,
                    } => {
                        let len = if *len_size != 0 { Some(c.un(*len_size)?) } else { None };
                        let base = c.bytes(*fixed)?;
                        let base_len = match len {
                            Some(l) => std::cmp::min(l as usize, *fixed),
                            None => *fixed,
                        };
                        let mut v = base[..base_len].to_vec();
                        if base[base_len..].iter().any(|b| *b != 0) {
                            return Err("fixed array not padded with zero".into());
                        }
                        if let Some(store) = store {
                            let id = c.un(*key_size)?;
                            let store = self
                                .value_stores
                                .get(*store as usize)
                                .ok_or_else(|| format!("no value store {store}"))?;
                            let ext = store.get(id, len.map(|l| l - base_len as u64))?;
                            v.extend_from_slice(&ext);
                        }
                        out.push((p.name.clone(), Val::Array(v)));
                    }
                }
            }
            Ok(())
        }

        /// Decode entry `idx` of store `store`: (variant name, [(name, value)])
        pub fn entry(&self, store: usize, idx: usize) -> R<(Option<String>, Vec<(String, Val)>)> {
            let s = &self.entry_stores[store];
            if idx >= s.entry_count as usize {
                return Err("no such entry".into());
            }
            let mut c = Cur::new(&s.data[idx * s.entry_size..(idx + 1) * s.entry_size]);
            let mut out = vec![];
            self.decode_props(&s.common, &mut c, &mut out)?;
            let variant = if s.variants.is_empty() {
                None
            } else {
                let id = c.u8()? as usize;
                let (name, props) = s
                    .variants
                    .get(id)
                    .ok_or_else(|| format!("variant id {id} does not exist"))?;
                self.decode_props(props, &mut c, &mut out)?;
                Some(name.clone())
            };
            c.end()?;
            Ok((variant, out))
        }
    }

    // ----- Manifest pack -----
    #[derive(Debug)]
    pub struct PackInfo {
        pub uuid: [u8; 16],
        pub size: u64,
        pub check_pos: u64,
        pub check_size: u64,
        pub check_hash: Option<[u8; 32]>,
        pub id: u16,
        pub kind: u8,
        pub group: u8,
        pub free_data: Vec<u8>,
        pub location: String,
    }

    #[derive(Debug)]
    pub struct ManifestPack {
        pub header: PackHeader,
        pub free_data: [u8; 24],
        pub packs: Vec<PackInfo>,
    }

    pub fn manifest_pack(pack: &[u8]) -> R<ManifestPack> {
        let (header, hash) = pack_frame(pack)?;
        if header.kind != b'm' {
            return Err("not a manifest pack".into());
        }
        let mut c = Cur::new(block(pack, 64, 60)?);
        let pack_count = c.u16()? as u64;
        let (vs_off, vs_size) = sized_offset(c.u64()?);
        c.zeros(26)?;
        let free_data: [u8; 24] = c.bytes(24)?.try_into().unwrap();
        c.end()?;

        let store = value_store(pack, vs_off, vs_size)?;

        let infos_start = header
            .check_pos
            .checked_sub(256 * pack_count)
            .ok_or("pack infos before the start")?;
        let mut masked = pack[..header.check_pos as usize].to_vec();
        let mut packs = vec![];
        for i in 0..pack_count {
            let off = infos_start + 256 * i;
            let mut c = Cur::new(block(pack, off, 252)?);
            let uuid: [u8; 16] = c.bytes(16)?.try_into().unwrap();
            let size = c.u64()?;
            let (check_pos, check_size) = sized_offset(c.u64()?);
            let id = c.u16()?;
            let kind = c.u8()?;
            let group = c.u8()?;
            let free_data_id = c.u16()?;
            let location = c.pstring()?;
            c.zeros(213 - location.len())?;
            c.end()?;
            let check = block(pack, check_pos, check_size.checked_sub(4).ok_or("check size")?)?;
            let check_hash = match check[0] {
                0 => None,
                1 => Some(check[1..33].try_into().map_err(|_| "bad check len")?),
                _ => return Err("bad check kind".into()),
            };
            let free_data = store.get(free_data_id as u64, None)?;
            packs.push(PackInfo {
                uuid,
                size,
                check_pos,
                check_size,
                check_hash,
                id,
                kind,
                group,
                free_data,
                location,
            });
            for b in &mut masked[(off + 38) as usize..(off + 256) as usize] {
                *b = 0;
            }
        }
        let hash = hash.ok_or("manifest pack must have a blake3")?;
        if super::b3::hash(&masked) != hash {
            return Err("blake3 of manifest pack differs".into());
        }
        Ok(ManifestPack {
            header,
            free_data,
            packs,
        })
    }

    // ----- Container pack -----
    #[derive(Debug)]
    pub struct Locator {
        pub uuid: [u8; 16],
        pub size: u64,
        pub offset: u64,
    }

    pub fn container_pack(pack: &[u8]) -> R<(PackHeader, [u8; 24], Vec<Locator>)> {
        let (header, hash) = pack_frame(pack)?;
        if header.kind != b'C' {
            return Err("not a container pack".into());
        }
        if hash.is_some() {
            return Err("container has no hash".into());
        }
        let mut c = Cur::new(block(pack, 64, 60)?);
        let locators_pos = c.u64()?;
        let count = c.u16()?;
        c.zeros(26)?;
        let free_data: [u8; 24] = c.bytes(24)?.try_into().unwrap();
        c.end()?;
        let mut locators = vec![];
        for i in 0..count as u64 {
            let mut l = Cur::new(block(pack, locators_pos + 36 * i, 32)?);
            let uuid: [u8; 16] = l.bytes(16)?.try_into().unwrap();
            let size = l.u64()?;
            let offset = l.u64()?;
            l.end()?;
            if offset + size > pack.len() as u64 {
                return Err("located pack is outside of the container".into());
            }
            let inner = pack_header_from(block(pack, offset, 60)?)?;
            if inner.uuid != uuid || inner.size != size {
                return Err("locator does not match the header of the pack".into());
            }
            locators.push(Locator { uuid, size, offset });
        }
        if locators_pos + 36 * count as u64 != header.check_pos {
            return Err("locators are not just before the check info".into());
        }
        Ok((header, free_data, locators))
    }
}

use dec::Val;

// ---------------------------------------------------------------------------------------------
// Helpers
// ---------------------------------------------------------------------------------------------

const VENDOR: jbk::VendorId = jbk::VendorId::new([b'h', b'u', b'n', b't']);

fn tmp() -> tempfile::TempDir {
    tempfile::tempdir().unwrap()
}

fn upath(p: &Path) -> &jbk::Utf8Path {
    jbk::Utf8Path::from_path(p).unwrap()
}

fn reader_of(path: &Path) -> jbk::Reader {
    jbk::FileSource::open(path).unwrap().into()
}

/// Create a content pack at path with the given contents. Returns the pack data
fn make_content_pack(
    path: &Path,
    pack_id: u16,
    compression: creator::Compression,
    contents: &[Vec<u8>],
    hint: impl Fn(usize) -> creator::CompHint,
    free_data: [u8; 24],
) -> creator::PackData {
    let mut c = creator::ContentPackCreator::new(
        upath(path),
        jbk::PackId::from(pack_id),
        VENDOR,
        free_data.into(),
        compression,
    )
    .unwrap();
    for (i, content) in contents.iter().enumerate() {
        let addr = c
            .add_content(Box::new(std::io::Cursor::new(content.clone())), hint(i))
            .unwrap();
        assert_eq!(addr.pack_id, jbk::PackId::from(pack_id));
        assert_eq!(addr.content_id, jbk::ContentIdx::from(i as u32));
    }
    let (_file, data) = c.finalize().unwrap();
    data
}

fn read_all(region: jbk::reader::ByteRegion) -> Vec<u8> {
    let mut v = vec![];
    region.stream().read_to_end(&mut v).unwrap();
    v
}

/// Check the content pack with the decoder and with the library reader
fn check_content_pack(path: &Path, contents: &[Vec<u8>], data: &creator::PackData, free_data: [u8; 24]) {
    let bytes = std::fs::read(path).unwrap();
    let d = dec::content_pack(&bytes).expect("decoder must accept the content pack");
    assert_eq!(d.header.uuid, *data.uuid.as_bytes());
    assert_eq!(d.header.size, data.pack_size.into_u64());
    assert_eq!(d.header.vendor, *VENDOR);
    assert_eq!(d.free_data, free_data);
    assert_eq!(d.infos.len(), contents.len());
    let pack = jbk::reader::ContentPack::new(reader_of(path)).unwrap();
    assert!(pack.check().unwrap());
    assert_eq!(pack.get_content_count().into_u32() as usize, contents.len());
    for (i, content) in contents.iter().enumerate() {
        let (cluster, blob) = d.infos[i];
        let cl = &d.clusters[cluster as usize];
        assert_eq!(
            cl.offsets[blob as usize + 1] - cl.offsets[blob as usize],
            content.len() as u64,
            "size of content {i}"
        );
        if cl.comp == 0 {
            assert_eq!(d.content(&bytes, i).unwrap(), &content[..], "decoder content {i}");
        }
        let region = pack.get_content((i as u32).into()).unwrap().unwrap();
        assert_eq!(region.size().into_u64(), content.len() as u64);
        assert!(read_all(region) == *content, "reader content {i}");
    }
    assert!(pack.get_content((contents.len() as u32).into()).unwrap().is_none());
    // Read in reverse order, partially, with a fresh reader (clusters are decompressed lazily)
    let pack = jbk::reader::ContentPack::new(reader_of(path)).unwrap();
    for (i, content) in contents.iter().enumerate().rev() {
        let region = pack.get_content((i as u32).into()).unwrap().unwrap();
        let half = content.len() / 2;
        let slice = region.get_slice((half as u64).into(), content.len() - half).unwrap();
        assert!(slice[..] == content[half..], "reader (reverse) content {i}");
    }
}

fn pattern(len: usize, seed: u32) -> Vec<u8> {
    // xorshift : incompressible enough
    let mut s = seed.wrapping_mul(2654435761).wrapping_add(12345) | 1;
    (0..len)
        .map(|_| {
            s ^= s << 13;
            s ^= s >> 17;
            s ^= s << 5;
            (s >> 8) as u8
        })
        .collect()
}

fn text(len: usize, seed: u32) -> Vec<u8> {
    (0..len).map(|i| b"abcdefgh "[(i + seed as usize) % 9]).collect()
}

type PN = &'static str;
type VN = &'static str;
type Entry = creator::BasicEntry<PN, VN>;

#[derive(Clone, Debug)]
enum In {
    U(u64),
    S(i64),
    C(u16, u32),
    A(Vec<u8>),
}

impl In {
    fn value(&self) -> jbk::Value {
        match self {
            In::U(v) => jbk::Value::Unsigned(*v),
            In::S(v) => jbk::Value::Signed(*v),
            In::C(p, c) => jbk::Value::Content(jbk::ContentAddress::new((*p).into(), (*c).into())),
            In::A(v) => jbk::Value::Array(v.as_slice().into()),
        }
    }
    fn val(&self) -> Val {
        match self {
            In::U(v) => Val::U(*v),
            In::S(v) => Val::S(*v),
            In::C(p, c) => Val::Content(*p, *c),
            In::A(v) => Val::Array(v.clone()),
        }
    }
}

type InEntry = (Option<VN>, Vec<(PN, In)>);

/// Build a directory pack with one entry store (schema given), one index on all entries.
/// Returns the path and the pack data.
fn make_directory_pack(
    path: &Path,
    value_stores: &[creator::StoreHandle],
    schema: schema::Schema<PN, VN>,
    entries: &[InEntry],
    origin: u64,
) -> jbk::creator::Result<creator::PackData> {
    let mut c = creator::DirectoryPackCreator::new(jbk::PackId::from(0), VENDOR, [7u8; 24].into());
    for s in value_stores {
        c.add_value_store(s.clone());
    }
    let mut store = Box::new(creator::EntryStore::new(schema, None));
    for (variant, values) in entries {
        let values: HashMap<PN, jbk::Value> = values.iter().map(|(n, v)| (*n, v.value())).collect();
        let e = Entry::new_from_schema(&store.schema, *variant, values);
        store.add_entry(e);
    }
    let id = c.add_entry_store(store);
    c.create_index(
        "the index",
        [1, 2, 3, 4].into(),
        0.into(),
        id,
        (entries.len() as u32).into(),
        jbk::EntryIdx::from(0).into(),
    );
    let mut file = std::fs::OpenOptions::new()
        .read(true)
        .write(true)
        .create(true)
        .truncate(true)
        .open(path)?;
    if origin != 0 {
        file.write_all(&vec![0xAA; origin as usize])?;
    }
    let data = c.finalize()?.write(&mut file)?;
    Ok(data)
}

fn raw_to_val(v: jbk::reader::RawValue) -> Val {
    match v.get().unwrap() {
        jbk::Value::Content(c) => Val::Content(c.pack_id.into_u16(), c.content_id.into_u32()),
        jbk::Value::Unsigned(v) => Val::U(v),
        jbk::Value::Signed(v) => Val::S(v),
        jbk::Value::Array(a) => Val::Array(a.to_vec()),
        _ => panic!("unexpected value"),
    }
}

/// Decode the directory pack (bytes of the pack) with the decoder and the reader, and compare to entries.
fn check_directory_bytes(bytes: &[u8], reader: jbk::Reader, data: &creator::PackData, entries: &[InEntry], variant_names: &[VN]) {
    let d = dec::directory_pack(bytes).expect("decoder must accept the directory pack");
    assert_eq!(d.header.uuid, *data.uuid.as_bytes());
    assert_eq!(d.header.size, data.pack_size.into_u64());
    assert_eq!(d.free_data, [7u8; 24]);
    assert_eq!(d.indexes.len(), 1);
    assert_eq!(d.indexes[0].name, "the index");
    assert_eq!(d.indexes[0].count as usize, entries.len());
    assert_eq!(d.indexes[0].offset, 0);
    assert_eq!(d.indexes[0].store_id, 0);
    assert_eq!(d.indexes[0].free_data, [1, 2, 3, 4]);
    assert_eq!(d.entry_stores.len(), 1);
    assert_eq!(d.entry_stores[0].entry_count as usize, entries.len());
    let decoded_variants: Vec<&str> = d.entry_stores[0].variants.iter().map(|(n, _)| n.as_str()).collect();
    assert_eq!(decoded_variants, variant_names);

    // First the independent decoder ...
    for (i, (variant, values)) in entries.iter().enumerate() {
        let (dvariant, dvalues) = d.entry(0, i).expect("decoder must decode the entry");
        assert_eq!(dvariant.as_deref(), *variant, "decoder: variant of entry {i}");
        let dmap: HashMap<&str, &Val> = dvalues.iter().map(|(n, v)| (n.as_str(), v)).collect();
        assert_eq!(dmap.len(), values.len(), "decoder: number of values of entry {i}");
        for (name, value) in values {
            assert_eq!(dmap.get(name).copied(), Some(&value.val()), "decoder: entry {i} value {name}");
        }
    }

    // ... then the reader of the library
    let pack = std::sync::Arc::new(jbk::reader::DirectoryPack::new(reader).expect("reader must open the directory pack"));
    assert!(pack.check().unwrap());
    let index = pack.get_index_from_name("the index").unwrap().unwrap();
    assert_eq!(index.count().into_u32() as usize, entries.len());
    let entry_storage = pack.create_entry_storage();
    let value_storage = pack.create_value_storage();
    let store = index
        .get_store(&entry_storage)
        .map_err(|e| e.to_string())
        .expect("reader must open the entry store written by the creator (decoder did)");
    let builder = jbk::reader::builder::AnyBuilder::new(store.clone(), value_storage.as_ref())
        .map_err(|e| e.to_string())
        .expect("reader must build the properties");

    // The typed builders of the reader
    {
        use jbk::reader::builder::{ArrayProperty, ContentProperty, IntProperty, PropertyBuilderTrait, SignedProperty};
        let layout = store.layout();
        for (i, (variant, values)) in entries.iter().enumerate() {
            let bytes = store.get_entry_reader((i as u32).into()).expect("entry exists");
            for (name, value) in values {
                let property = layout
                    .common
                    .get(*name)
                    .or_else(|| variant.and_then(|v| layout.get_variant(v)).and_then(|p| p.get(*name)))
                    .expect("the layout of the reader has the property");
                let got = match value {
                    In::U(_) => Val::U(
                        property
                            .as_builder::<IntProperty, _>(value_storage.as_ref())
                            .unwrap()
                            .expect("unsigned property")
                            .create(&bytes)
                            .unwrap(),
                    ),
                    In::S(_) => Val::S(
                        property
                            .as_builder::<SignedProperty, _>(value_storage.as_ref())
                            .unwrap()
                            .expect("signed property")
                            .create(&bytes)
                            .unwrap(),
                    ),
                    In::C(_, _) => {
                        let c = property
                            .as_builder::<ContentProperty, _>(value_storage.as_ref())
                            .unwrap()
                            .expect("content property")
                            .create(&bytes)
                            .unwrap();
                        Val::Content(c.pack_id.into_u16(), c.content_id.into_u32())
                    }
                    In::A(_) => {
                        let a = property
                            .as_builder::<ArrayProperty, _>(value_storage.as_ref())
                            .unwrap()
                            .expect("array property")
                            .create(&bytes)
                            .unwrap();
                        let mut v = jbk::SmallBytes::new();
                        a.resolve_to_vec(&mut v).unwrap();
                        Val::Array(v.to_vec())
                    }
                };
                assert_eq!(got, value.val(), "typed reader: entry {i} value {name}");
            }
        }
    }

    for (i, (variant, values)) in entries.iter().enumerate() {
        let entry = index
            .get_entry(&builder, (i as u32).into())
            .unwrap()
            .expect("entry is in the index");
        let rvariant = entry.get_variant_id().unwrap().map(|v| variant_names[v.into_usize()]);
        assert_eq!(rvariant, *variant, "reader: variant of entry {i}");
        for (name, value) in values {
            let rvalue = entry.get_value(name).unwrap().expect("reader has the value");
            assert_eq!(raw_to_val(rvalue), value.val(), "reader: entry {i} value {name}");
        }
    }
}

fn check_directory_pack(path: &Path, data: &creator::PackData, entries: &[InEntry], variant_names: &[VN]) {
    let bytes = std::fs::read(path).unwrap();
    check_directory_bytes(&bytes, reader_of(path), data, entries, variant_names);
}

fn simple_schema(props: Vec<schema::Property<PN>>) -> schema::Schema<PN, VN> {
    schema::Schema::new(schema::CommonProperties::new(props), vec![], None)
}

// ---------------------------------------------------------------------------------------------
// H0 : the independent implementations agree with the library on a simple case
// ---------------------------------------------------------------------------------------------

#[test]
fn h00_blake3_vectors() {
    // Known test vectors of BLAKE3 (input is bytes i % 251)
    let input = |n: usize| (0..n).map(|i| (i % 251) as u8).collect::<Vec<u8>>();
    let hex = |h: [u8; 32]| h.iter().map(|b| format!("{b:02x}")).collect::<String>();
    assert_eq!(hex(b3::hash(&input(0))), "af1349b9f5f9a1a6a0404dea36dcc9499bcb25c9adc112b7cc9a93cae41f3262");
    assert_eq!(hex(b3::hash(&input(1))), "2d3adedff11b61f14c886e35afa036736dcd87a74d27b5c1510225d0f592e213");
    assert_eq!(hex(b3::hash(&input(1024))), "42214739f095a406f3fc83deb889744ac00df831c10daa55189b5d121c855af7");
    assert_eq!(hex(b3::hash(&input(1025))), "d00278ae47eb27b34faecf67b4fe263f82d5412916c1ffd97c8cb7fb814b8444");
}

#[test]
fn h01_crc_parameters() {
    // check value of the algorithm for "123456789" as documented in src/bases/block.rs
    assert_eq!(dec::crc(b"123456789"), 0xFABBF0EA);
}

// ---------------------------------------------------------------------------------------------
// H1 : content pack, no compression, boundary sizes and counts
// ---------------------------------------------------------------------------------------------

fn content_case(name: &str, compression: creator::Compression, contents: Vec<Vec<u8>>, hint: impl Fn(usize) -> creator::CompHint) {
    let dir = tmp();
    let path = dir.path().join(format!("{name}.jbkc"));
    let free_data = [0x5A; 24];
    let data = make_content_pack(&path, 3, compression, &contents, hint, free_data);
    check_content_pack(&path, &contents, &data, free_data);
}

#[test]
fn h10_content_empty_pack() {
    content_case("empty", creator::Compression::None, vec![], |_| creator::CompHint::No);
}

#[test]
fn h11_content_empty_blobs() {
    content_case("one_empty", creator::Compression::None, vec![vec![]], |_| creator::CompHint::No);
    content_case("three_empty", creator::Compression::None, vec![vec![], vec![], vec![]], |_| {
        creator::CompHint::No
    });
    content_case(
        "empty_around",
        creator::Compression::None,
        vec![vec![], b"a".to_vec(), vec![], vec![], b"bc".to_vec(), vec![]],
        |_| creator::CompHint::No,
    );
}

#[test]
fn h12_content_offset_size_boundaries() {
    // total size of the cluster decides the width of the offsets : 255/256, 65535/65536, 2^24-1/2^24
    for total in [255usize, 256, 65535, 65536, (1 << 24) - 1, 1 << 24, (1 << 24) + 1] {
        let first = total / 3;
        let contents = vec![pattern(first, 1), pattern(1, 2), pattern(total - first - 1, 3)];
        content_case(&format!("total_{total}"), creator::Compression::None, contents, |_| {
            creator::CompHint::Detect
        });
    }
}

#[test]
fn h13_content_blob_count_boundaries() {
    for count in [4094usize, 4095, 4096, 4097, 8190, 8191] {
        let contents: Vec<Vec<u8>> = (0..count).map(|i| vec![(i % 256) as u8; i % 3]).collect();
        content_case(&format!("count_{count}"), creator::Compression::None, contents, |_| {
            creator::CompHint::No
        });
    }
}

// ---------------------------------------------------------------------------------------------
// H2 : content pack, zstd compression, mix of raw and compressed cluster
// ---------------------------------------------------------------------------------------------

#[test]
fn h20_content_zstd_mix() {
    let contents: Vec<Vec<u8>> = (0..40)
        .map(|i| if i % 3 == 0 { pattern(1000 * i, i as u32) } else { text(700 * i, i as u32) })
        .collect();
    content_case("zstd_mix", creator::Compression::zstd(), contents.clone(), |i| {
        if i % 2 == 0 {
            creator::CompHint::Yes
        } else {
            creator::CompHint::No
        }
    });
    content_case("zstd_detect", creator::Compression::zstd(), contents.clone(), |_| {
        creator::CompHint::Detect
    });
    content_case("zstd_all", creator::Compression::zstd(), contents, |_| creator::CompHint::Yes);
}

#[test]
fn h21_content_zstd_many_clusters() {
    // compressed clusters are closed when they would be bigger than 4MiB : several clusters,
    // written by several threads, interleaved with a raw cluster
    let mut contents = vec![];
    for i in 0..12 {
        contents.push(text(1024 * 1024 + i, i as u32));
        contents.push(pattern(10 + i, i as u32));
    }
    content_case("zstd_clusters", creator::Compression::zstd(), contents, |i| {
        if i % 2 == 0 {
            creator::CompHint::Yes
        } else {
            creator::CompHint::No
        }
    });
}

#[test]
fn h22_content_zstd_empty_and_incompressible() {
    content_case("zstd_empty", creator::Compression::zstd(), vec![vec![], vec![]], |_| {
        creator::CompHint::Yes
    });
    for len in [1usize, 2, 100, 255, 256, 65535, 65536] {
        content_case(&format!("zstd_incomp_{len}"), creator::Compression::zstd(), vec![pattern(len, 7)], |_| {
            creator::CompHint::Yes
        });
    }
    // 4095 blobs in a compressed cluster
    let contents: Vec<Vec<u8>> = (0..4100).map(|i| vec![(i % 256) as u8; i % 5]).collect();
    content_case("zstd_4100", creator::Compression::zstd(), contents, |_| creator::CompHint::Yes);
}

#[test]
fn h23_content_zstd_levels() {
    use creator::Compression;
    for level in [-22, -1, 0, 1, 19, 22] {
        let c = Compression::Zstd(level.try_into().unwrap());
        content_case(&format!("zstd_level_{level}"), c, vec![text(100_000, 1), pattern(100, 2), text(3, 3)], |_| {
            creator::CompHint::Yes
        });
    }
}


// ---------------------------------------------------------------------------------------------
// H3 : directory pack, integers at the boundaries of each width, constant columns
// ---------------------------------------------------------------------------------------------

fn dir_case(
    name: &str,
    stores: &[creator::StoreHandle],
    schema: schema::Schema<PN, VN>,
    entries: &[InEntry],
    variant_names: &[VN],
) {
    let dir = tmp();
    let path = dir.path().join(format!("{name}.jbkd"));
    let data = make_directory_pack(&path, stores, schema, entries, 0).expect("creation must succeed");
    check_directory_pack(&path, &data, entries, variant_names);
}

#[test]
fn h30_directory_unsigned_boundaries() {
    let mut maxes = vec![0u64, 1];
    for k in 1..8 {
        maxes.push((1u64 << (8 * k)) - 1);
        maxes.push(1u64 << (8 * k));
    }
    maxes.push(u64::MAX);
    for max in maxes {
        // varying column
        let entries: Vec<InEntry> = [0, max / 2, max]
            .iter()
            .map(|v| (None, vec![("u", In::U(*v)), ("k", In::U(max))]))
            .collect();
        dir_case(
            &format!("u_{max}"),
            &[],
            simple_schema(vec![schema::Property::new_uint("u"), schema::Property::new_uint("k")]),
            &entries,
            &[],
        );
    }
}

#[test]
fn h31_directory_signed_boundaries() {
    let mut bounds = vec![0i64, 1, -1];
    for k in 1..8 {
        let b = 1i64 << (8 * k - 1);
        bounds.extend_from_slice(&[b - 1, b, -b, -b - 1]);
    }
    bounds.extend_from_slice(&[i64::MAX, i64::MIN]);
    for b in bounds {
        let entries: Vec<InEntry> = [0, b / 2, b]
            .iter()
            .map(|v| (None, vec![("s", In::S(*v)), ("k", In::S(b))]))
            .collect();
        dir_case(
            &format!("s_{b}"),
            &[],
            simple_schema(vec![schema::Property::new_sint("s"), schema::Property::new_sint("k")]),
            &entries,
            &[],
        );
        // only the bound, with an other value of opposite sign
        let entries: Vec<InEntry> = [b, -1, 0].iter().map(|v| (None, vec![("s", In::S(*v))])).collect();
        dir_case(
            &format!("s2_{b}"),
            &[],
            simple_schema(vec![schema::Property::new_sint("s")]),
            &entries,
            &[],
        );
    }
}

#[test]
fn h32_directory_content_address_boundaries() {
    let pack_ids = [0u16, 1, 255, 256, 65535];
    let content_ids = [0u32, 255, 256, 65535, 65536, (1 << 24) - 1, 1 << 24, u32::MAX];
    for pack_max in pack_ids {
        for content_max in content_ids {
            // varying pack id
            let entries: Vec<InEntry> = vec![
                (None, vec![("c", In::C(0, 0)), ("d", In::C(pack_max, content_max))]),
                (None, vec![("c", In::C(pack_max, content_max)), ("d", In::C(pack_max, 0))]),
                (None, vec![("c", In::C(pack_max / 2, content_max / 2)), ("d", In::C(pack_max, 1))]),
            ];
            dir_case(
                &format!("c_{pack_max}_{content_max}"),
                &[],
                simple_schema(vec![
                    schema::Property::new_content_address("c"),
                    schema::Property::new_content_address("d"),
                ]),
                &entries,
                &[],
            );
        }
    }
}

#[test]
fn h33_directory_no_entry_no_property() {
    dir_case("no_entry", &[], simple_schema(vec![schema::Property::new_uint("u")]), &[], &[]);
    dir_case("no_prop", &[], simple_schema(vec![]), &[(None, vec![]), (None, vec![])], &[]);
    dir_case("nothing", &[], simple_schema(vec![]), &[], &[]);
    // Only constant columns : the entries have a size of 0
    let entries: Vec<InEntry> = (0..3)
        .map(|_| (None, vec![("u", In::U(300)), ("s", In::S(-300)), ("c", In::C(5, 5))]))
        .collect();
    dir_case(
        "all_const",
        &[],
        simple_schema(vec![
            schema::Property::new_uint("u"),
            schema::Property::new_sint("s"),
            schema::Property::new_content_address("c"),
        ]),
        &entries,
        &[],
    );
}

// ---------------------------------------------------------------------------------------------
// H4 : arrays : every store kind, fixed length, sizes at the boundaries
// ---------------------------------------------------------------------------------------------

#[test]
fn h40_directory_arrays() {
    let lens = [0usize, 1, 2, 3, 4, 30, 31, 32, 33, 255, 256, 257, 65535, 65536, 65537];
    for plain in [true, false] {
        for fixed in [0usize, 1, 2, 3, 5, 31] {
            let store = if plain {
                creator::ValueStore::new_plain(None)
            } else {
                creator::ValueStore::new_indexed()
            };
            let mut entries: Vec<InEntry> = vec![];
            for (i, len) in lens.iter().enumerate() {
                entries.push((None, vec![("a", In::A(pattern(*len, i as u32))), ("n", In::U(i as u64))]));
                // A shared prefix
                entries.push((None, vec![("a", In::A(text(*len, 0))), ("n", In::U(1000 + i as u64))]));
            }
            dir_case(
                &format!("array_{plain}_{fixed}"),
                &[store.clone()],
                simple_schema(vec![
                    schema::Property::new_array(fixed, store.clone(), "a"),
                    schema::Property::new_uint("n"),
                ]),
                &entries,
                &[],
            );
            // small only : array_len_size = 1 and store key size = 1
            let store = if plain {
                creator::ValueStore::new_plain(None)
            } else {
                creator::ValueStore::new_indexed()
            };
            let entries: Vec<InEntry> = (0..6usize)
                .map(|i| (None, vec![("a", In::A(text(i * 7, i as u32)))]))
                .collect();
            dir_case(
                &format!("array_small_{plain}_{fixed}"),
                &[store.clone()],
                simple_schema(vec![schema::Property::new_array(fixed, store.clone(), "a")]),
                &entries,
                &[],
            );
        }
    }
}

#[test]
fn h41_directory_value_store_key_size_boundaries() {
    // Plain store : key is an offset. Size of the store 255/256/257, 65535/65536/65537
    for total in [254usize, 255, 256, 257, 65535, 65536, 65537] {
        let store = creator::ValueStore::new_plain(None);
        let half = total / 2;
        let entries: Vec<InEntry> = vec![
            (None, vec![("a", In::A(vec![1u8; half]))]),
            (None, vec![("a", In::A(vec![2u8; total - half]))]),
            (None, vec![("a", In::A(vec![]))]),
        ];
        dir_case(
            &format!("plain_total_{total}"),
            &[store.clone()],
            simple_schema(vec![schema::Property::new_array(0, store.clone(), "a")]),
            &entries,
            &[],
        );
    }
    // Indexed store : key is an index. 255/256/257 values
    for count in [1usize, 254, 255, 256, 257, 258] {
        let store = creator::ValueStore::new_indexed();
        let entries: Vec<InEntry> = (0..count)
            .map(|i| (None, vec![("a", In::A(format!("value {i:05}").into_bytes()))]))
            .collect();
        dir_case(
            &format!("indexed_count_{count}"),
            &[store.clone()],
            simple_schema(vec![schema::Property::new_array(0, store.clone(), "a")]),
            &entries,
            &[],
        );
    }
}

#[test]
fn h42_directory_several_stores() {
    let s0 = creator::ValueStore::new_plain(None);
    let s1 = creator::ValueStore::new_indexed();
    let s2 = creator::ValueStore::new_plain(Some(3));
    let s3 = creator::ValueStore::new_indexed(); // unused store
    let entries: Vec<InEntry> = (0..50usize)
        .map(|i| {
            (
                None,
                vec![
                    ("a", In::A(text(i, 1))),
                    ("b", In::A(text(i % 7, 2))),
                    ("c", In::A(pattern(i * 3, 3))),
                    ("d", In::A(text(i % 2, 4))),
                ],
            )
        })
        .collect();
    dir_case(
        "several_stores",
        &[s0.clone(), s1.clone(), s2.clone(), s3],
        simple_schema(vec![
            schema::Property::new_array(0, s0.clone(), "a"),
            schema::Property::new_array(0, s1.clone(), "b"),
            schema::Property::new_array(4, s2, "c"),
            schema::Property::new_array(1, s1, "d"),
        ]),
        &entries,
        &[],
    );
}

// ---------------------------------------------------------------------------------------------
// H5 : variants
// ---------------------------------------------------------------------------------------------

fn variant_schema(
    common: Vec<schema::Property<PN>>,
    variants: Vec<(VN, Vec<schema::Property<PN>>)>,
) -> schema::Schema<PN, VN> {
    schema::Schema::new(
        schema::CommonProperties::new(common),
        variants
            .into_iter()
            .map(|(n, p)| (n, schema::VariantProperties::new(p)))
            .collect(),
        None,
    )
}

#[test]
fn h50_variants_different_sizes() {
    // One big variant (more than 16 bytes of padding needed in the others)
    let store = creator::ValueStore::new_plain(None);
    let entries: Vec<InEntry> = vec![
        (Some("big"), vec![("n", In::U(1)), ("a", In::A(text(40, 1))), ("b", In::U(u64::MAX)), ("c", In::U(0))]),
        (Some("big"), vec![("n", In::U(2)), ("a", In::A(text(4, 1))), ("b", In::U(0)), ("c", In::U(u64::MAX))]),
        (Some("small"), vec![("n", In::U(3)), ("x", In::U(7))]),
        (Some("small"), vec![("n", In::U(4)), ("x", In::U(8))]),
        (Some("empty"), vec![("n", In::U(5))]),
    ];
    dir_case(
        "variants_sizes",
        &[store.clone()],
        variant_schema(
            vec![schema::Property::new_uint("n")],
            vec![
                ("small", vec![schema::Property::new_uint("x")]),
                (
                    "big",
                    vec![
                        schema::Property::new_array(31, store.clone(), "a"),
                        schema::Property::new_uint("b"),
                        schema::Property::new_uint("c"),
                    ],
                ),
                ("empty", vec![]),
            ],
        ),
        &entries,
        &["small", "big", "empty"],
    );
}

#[test]
fn h51_variants_constant_columns() {
    // All the properties of the variants are constant : variant part is only the variant id
    let entries: Vec<InEntry> = vec![
        (Some("a"), vec![("n", In::U(1)), ("x", In::U(7))]),
        (Some("b"), vec![("n", In::U(2)), ("y", In::S(-7))]),
        (Some("a"), vec![("n", In::U(3)), ("x", In::U(7))]),
    ];
    dir_case(
        "variants_const",
        &[],
        variant_schema(
            vec![schema::Property::new_uint("n")],
            vec![
                ("a", vec![schema::Property::new_uint("x")]),
                ("b", vec![schema::Property::new_sint("y")]),
            ],
        ),
        &entries,
        &["a", "b"],
    );
}

#[test]
fn h52_variants_without_any_property() {
    // Variants are only a "kind" : no property in the variants.
    let entries: Vec<InEntry> = vec![
        (Some("file"), vec![("n", In::U(1))]),
        (Some("dir"), vec![("n", In::U(2))]),
        (Some("file"), vec![("n", In::U(3))]),
    ];
    dir_case(
        "variants_kind_only",
        &[],
        variant_schema(vec![schema::Property::new_uint("n")], vec![("file", vec![]), ("dir", vec![])]),
        &entries,
        &["file", "dir"],
    );
}

#[test]
fn h53_variants_empty_variant_with_constant_other() {
    // "dir" has no property, "link" has one property which happens to be constant
    // (only one link in the container) : the variant part is only the variant id.
    let entries: Vec<InEntry> = vec![
        (Some("dir"), vec![("n", In::U(1))]),
        (Some("link"), vec![("n", In::U(2)), ("target", In::U(1))]),
        (Some("dir"), vec![("n", In::U(3))]),
    ];
    dir_case(
        "variants_empty_and_const",
        &[],
        variant_schema(
            vec![schema::Property::new_uint("n")],
            vec![("dir", vec![]), ("link", vec![schema::Property::new_uint("target")])],
        ),
        &entries,
        &["dir", "link"],
    );
}

#[test]
fn h54_variants_one_variant_no_common() {
    let entries: Vec<InEntry> = vec![(Some("only"), vec![("x", In::U(1))]), (Some("only"), vec![("x", In::U(2))])];
    dir_case(
        "variants_one",
        &[],
        variant_schema(vec![], vec![("only", vec![schema::Property::new_uint("x")])]),
        &entries,
        &["only"],
    );
    // A variant never used
    let entries: Vec<InEntry> = vec![(Some("used"), vec![("x", In::U(1))]), (Some("used"), vec![("x", In::U(2))])];
    dir_case(
        "variants_unused",
        &[],
        variant_schema(
            vec![],
            vec![
                ("unused", vec![schema::Property::new_uint("y"), schema::Property::new_content_address("c")]),
                ("used", vec![schema::Property::new_uint("x")]),
            ],
        ),
        &entries,
        &["unused", "used"],
    );
}

#[test]
fn h55_variants_last_variant_empty() {
    // Same as h53, the variant without property is the last one
    let entries: Vec<InEntry> = vec![
        (Some("dir"), vec![("n", In::U(1))]),
        (Some("link"), vec![("n", In::U(2)), ("target", In::U(1))]),
    ];
    dir_case(
        "variants_const_and_empty",
        &[],
        variant_schema(
            vec![schema::Property::new_uint("n")],
            vec![("link", vec![schema::Property::new_uint("target")]), ("dir", vec![])],
        ),
        &entries,
        &["link", "dir"],
    );
}

// ---------------------------------------------------------------------------------------------
// H6 : limits of the fields of the property definitions
// ---------------------------------------------------------------------------------------------

/// Either the creation is refused, or what is written is decoded to what was given.
fn dir_case_or_refused(
    name: &str,
    stores: Vec<creator::StoreHandle>,
    schema: impl FnOnce() -> schema::Schema<PN, VN> + std::panic::UnwindSafe,
    entries: Vec<InEntry>,
    variant_names: &[VN],
) {
    let dir = tmp();
    let path = dir.path().join(format!("{name}.jbkd"));
    let path2 = path.clone();
    let entries2 = entries.clone();
    let stores = std::panic::AssertUnwindSafe(stores);
    let created = std::panic::catch_unwind(move || make_directory_pack(&path2, &stores, schema(), &entries2, 0));
    match created {
        Err(_) => { /* creation panicked : nothing (wrong) is written, the property holds */ }
        Ok(Err(_)) => { /* creation refused */ }
        Ok(Ok(data)) => check_directory_pack(&path, &data, &entries, variant_names),
    }
}

#[test]
fn h60_fixed_array_len_5_bits() {
    // The fixed part of an array is stored on 5 bits in the property definition (max 31)
    for fixed in [31usize, 32, 33, 64, 255, 256] {
        for plain in [true, false] {
            let store = if plain {
                creator::ValueStore::new_plain(None)
            } else {
                creator::ValueStore::new_indexed()
            };
            let entries: Vec<InEntry> = (0..5usize)
                .map(|i| (None, vec![("a", In::A(text(i * 20, i as u32))), ("n", In::U(i as u64))]))
                .collect();
            let s = store.clone();
            dir_case_or_refused(
                &format!("fixed_{fixed}_{plain}"),
                vec![store],
                move || {
                    simple_schema(vec![
                        schema::Property::new_array(fixed, s, "a"),
                        schema::Property::new_uint("n"),
                    ])
                },
                entries,
                &[],
            );
        }
    }
}

const NAMES: [&str; 300] = {
    const DIGITS: &str = "p000p001p002p003p004p005p006p007p008p009p010p011p012p013p014p015p016p017p018p019p020p021p022p023p024p025p026p027p028p029p030p031p032p033p034p035p036p037p038p039p040p041p042p043p044p045p046p047p048p049p050p051p052p053p054p055p056p057p058p059p060p061p062p063p064p065p066p067p068p069p070p071p072p073p074p075p076p077p078p079p080p081p082p083p084p085p086p087p088p089p090p091p092p093p094p095p096p097p098p099p100p101p102p103p104p105p106p107p108p109p110p111p112p113p114p115p116p117p118p119p120p121p122p123p124p125p126p127p128p129p130p131p132p133p134p135p136p137p138p139p140p141p142p143p144p145p146p147p148p149p150p151p152p153p154p155p156p157p158p159p160p161p162p163p164p165p166p167p168p169p170p171p172p173p174p175p176p177p178p179p180p181p182p183p184p185p186p187p188p189p190p191p192p193p194p195p196p197p198p199p200p201p202p203p204p205p206p207p208p209p210p211p212p213p214p215p216p217p218p219p220p221p222p223p224p225p226p227p228p229p230p231p232p233p234p235p236p237p238p239p240p241p242p243p244p245p246p247p248p249p250p251p252p253p254p255p256p257p258p259p260p261p262p263p264p265p266p267p268p269p270p271p272p273p274p275p276p277p278p279p280p281p282p283p284p285p286p287p288p289p290p291p292p293p294p295p296p297p298p299";
    let mut out = [""; 300];
    let mut i = 0;
    while i < 300 {
        out[i] = DIGITS.split_at(4 * i).1.split_at(4).0;
        i += 1;
    }
    out
};

#[test]
fn h61_property_count_u8() {
    // The number of properties is stored on a u8
    for count in [254usize, 255, 256, 257, 300] {
        let entries: Vec<InEntry> = (0..3u64)
            .map(|e| (None, (0..count).map(|i| (NAMES[i], In::U(e * 1000 + i as u64))).collect()))
            .collect();
        dir_case_or_refused(
            &format!("props_{count}"),
            vec![],
            move || simple_schema((0..count).map(|i| schema::Property::new_uint(NAMES[i])).collect()),
            entries,
            &[],
        );
    }
}

#[test]
fn h62_property_count_with_variants_and_padding() {
    // Paddings and variant ids count as properties : 100 variants of 1 property + one big variant
    // (each small variant gets paddings)
    let store = creator::ValueStore::new_plain(None);
    for nb_variants in [60usize, 84, 85, 86, 120] {
        // each small variant is : variant id + uint + 2 paddings (31 + 1 + 1 bytes = 33 -> 16 + 16 + ...)
        let s = store.clone();
        let mut entries: Vec<InEntry> = (0..nb_variants)
            .map(|i| (Some(NAMES[i]), vec![("n", In::U(i as u64)), ("x", In::U(i as u64 + 1))]))
            .collect();
        entries.push((Some("big"), vec![("n", In::U(1000)), ("a", In::A(text(31, 0))), ("y", In::U(4))]));
        entries.push((Some("big"), vec![("n", In::U(1001)), ("a", In::A(text(3, 0))), ("y", In::U(5))]));
        let mut names: Vec<VN> = (0..nb_variants).map(|i| NAMES[i]).collect();
        names.push("big");
        dir_case_or_refused(
            &format!("variants_{nb_variants}"),
            vec![store.clone()],
            move || {
                let mut variants: Vec<(VN, Vec<schema::Property<PN>>)> = (0..nb_variants)
                    .map(|i| (NAMES[i], vec![schema::Property::new_uint("x")]))
                    .collect();
                variants.push((
                    "big",
                    vec![schema::Property::new_array(31, s, "a"), schema::Property::new_uint("y")],
                ));
                variant_schema(vec![schema::Property::new_uint("n")], variants)
            },
            entries,
            &names,
        );
    }
}

#[test]
fn h63_user_padding() {
    // Padding is a public variant of schema::Property. Its size is stored on 4 bits (1..=16)
    for size in [1u8, 15, 16, 17, 32, 255] {
        let entries: Vec<InEntry> = (0..3u64).map(|i| (None, vec![("a", In::U(i)), ("b", In::U(i + 10))])).collect();
        dir_case_or_refused(
            &format!("padding_{size}"),
            vec![],
            move || {
                simple_schema(vec![
                    schema::Property::new_uint("a"),
                    schema::Property::Padding(size),
                    schema::Property::new_uint("b"),
                ])
            },
            entries,
            &[],
        );
    }
}

#[test]
fn h64_names_255_bytes() {
    // names are PString : 255 bytes max
    let long: &'static str = Box::leak("n".repeat(255).into_boxed_str());
    let longv: &'static str = Box::leak("v".repeat(255).into_boxed_str());
    let entries: Vec<InEntry> = vec![(Some(longv), vec![(long, In::U(1))]), (Some(longv), vec![(long, In::U(2))])];
    dir_case(
        "long_names",
        &[],
        variant_schema(vec![], vec![(longv, vec![schema::Property::new_uint(long)])]),
        &entries,
        &[longv],
    );
}

// ---------------------------------------------------------------------------------------------
// H7 : packs not written at the start of the stream
// ---------------------------------------------------------------------------------------------

#[test]
fn h70_directory_pack_written_after_other_data() {
    // FinalizedDirectoryPackCreator::write records the position of the stream (`origin_offset`)
    // and writes the pack from there : the bytes [origin, origin + pack_size] must be a valid pack.
    for origin in [0u64, 1, 100, 65536] {
        for plain in [true, false] {
            let dir = tmp();
            let path = dir.path().join("dir_at_origin.bin");
            let store = if plain {
                creator::ValueStore::new_plain(None)
            } else {
                creator::ValueStore::new_indexed()
            };
            let entries: Vec<InEntry> = (0..5usize)
                .map(|i| (None, vec![("a", In::A(text(i * 20, i as u32))), ("n", In::U(i as u64))]))
                .collect();
            let data = make_directory_pack(
                &path,
                &[store.clone()],
                simple_schema(vec![schema::Property::new_array(2, store, "a"), schema::Property::new_uint("n")]),
                &entries,
                origin,
            )
            .unwrap();
            let bytes = std::fs::read(&path).unwrap();
            assert_eq!(bytes.len() as u64, origin + data.pack_size.into_u64(), "origin {origin}: size of the file");
            let pack_bytes = bytes[origin as usize..].to_vec();
            // Put the pack alone in a file for the reader
            let alone = dir.path().join("alone.jbkd");
            std::fs::write(&alone, &pack_bytes).unwrap();
            check_directory_bytes(&pack_bytes, reader_of(&alone), &data, &entries, &[]);
        }
    }
}

// ---------------------------------------------------------------------------------------------
// H8 : manifest pack
// ---------------------------------------------------------------------------------------------

struct Packs {
    dir: tempfile::TempDir,
    directory: (PathBuf, creator::PackData),
    contents: Vec<(PathBuf, creator::PackData, Vec<Vec<u8>>)>,
    entries: Vec<InEntry>,
}

fn copy_pack_data(d: &creator::PackData, free_data: Vec<u8>) -> creator::PackData {
    creator::PackData {
        uuid: d.uuid,
        pack_size: d.pack_size,
        pack_kind: d.pack_kind,
        pack_id: d.pack_id,
        free_data,
        check_info: d.check_info,
    }
}

fn make_packs(content_pack_ids: &[u16]) -> Packs {
    let dir = tmp();
    let mut contents = vec![];
    let mut entries: Vec<InEntry> = vec![];
    for id in content_pack_ids {
        let path = dir.path().join(format!("content_{id}.jbkc"));
        let blobs: Vec<Vec<u8>> = (0..3).map(|i| text(10 * i + *id as usize % 50, i as u32)).collect();
        let data = make_content_pack(&path, *id, creator::Compression::None, &blobs, |_| creator::CompHint::No, [0; 24]);
        for i in 0..3 {
            entries.push((None, vec![("c", In::C(*id, i)), ("n", In::U(entries.len() as u64))]));
        }
        contents.push((path, data, blobs));
    }
    let dpath = dir.path().join("directory.jbkd");
    let ddata = make_directory_pack(
        &dpath,
        &[],
        simple_schema(vec![schema::Property::new_content_address("c"), schema::Property::new_uint("n")]),
        &entries,
        0,
    )
    .unwrap();
    Packs {
        dir,
        directory: (dpath, ddata),
        contents,
        entries,
    }
}

fn check_manifest_bytes(
    bytes: &[u8],
    reader: jbk::Reader,
    expected: &[(creator::PackData, String)],
    free_data: [u8; 24],
) {
    let d = dec::manifest_pack(bytes).expect("decoder must accept the manifest");
    assert_eq!(d.free_data, free_data);
    assert_eq!(d.packs.len(), expected.len());
    for (p, (data, location)) in d.packs.iter().zip(expected) {
        assert_eq!(p.uuid, *data.uuid.as_bytes());
        assert_eq!(p.size, data.pack_size.into_u64());
        assert_eq!(p.id, data.pack_id.into_u16());
        assert_eq!(p.kind, data.pack_kind as u8);
        assert_eq!(p.group, 0);
        assert_eq!(p.free_data, data.free_data);
        assert_eq!(&p.location, location);
        assert!(p.check_hash.is_some());
    }
    let m = jbk::reader::ManifestPack::new(reader).expect("reader must open the manifest");
    assert!(m.check().unwrap());
    assert_eq!(m.pack_count().into_u16() as usize, expected.len());
    for (data, location) in expected {
        let info = if data.pack_kind == jbk::reader::PackInfo::clone(m.get_directory_pack_info()).pack_kind {
            m.get_directory_pack_info()
        } else {
            m.get_content_pack_info(data.pack_id).expect("pack info")
        };
        assert_eq!(info.uuid, data.uuid);
        assert_eq!(info.pack_size, data.pack_size);
        assert_eq!(info.pack_id, data.pack_id);
        assert_eq!(info.pack_location.as_str(), location);
        assert_eq!(m.get_pack_free_data_uuid(data.uuid).unwrap().unwrap(), &data.free_data[..]);
    }
}

fn manifest_case(packs: &Packs, locations: &[String], free_datas: &[Vec<u8>], origin: u64) {
    let free_data = [0xC3u8; 24];
    let mut c = creator::ManifestPackCreator::new(VENDOR, free_data.into());
    let mut expected = vec![];
    let mut all = vec![&packs.directory.1];
    all.extend(packs.contents.iter().map(|c| &c.1));
    for (i, data) in all.iter().enumerate() {
        let fd = free_datas[i % free_datas.len()].clone();
        let loc = locations[i % locations.len()].clone();
        c.add_pack(copy_pack_data(data, fd.clone()), loc.as_str());
        expected.push((copy_pack_data(data, fd), loc));
    }
    let path = packs.dir.path().join(format!("manifest_{origin}.jbkm"));
    let mut file = std::fs::OpenOptions::new()
        .read(true)
        .write(true)
        .create(true)
        .truncate(true)
        .open(&path)
        .unwrap();
    file.write_all(&vec![0x55; origin as usize]).unwrap();
    c.finalize(&mut file).unwrap();
    drop(file);
    let bytes = std::fs::read(&path).unwrap();
    let pack_bytes = bytes[origin as usize..].to_vec();
    let alone = packs.dir.path().join("alone.jbkm");
    std::fs::write(&alone, &pack_bytes).unwrap();
    check_manifest_bytes(&pack_bytes, reader_of(&alone), &expected, free_data);
}

#[test]
fn h80_manifest_locations_and_free_data() {
    let packs = make_packs(&[1, 2, 255, 256, 65535]);
    manifest_case(&packs, &["".to_string()], &[vec![]], 0);
    manifest_case(
        &packs,
        &["a".to_string(), "é/ü".to_string(), "x".repeat(212), "y".repeat(213)],
        &[vec![], vec![1], vec![0; 300], b"same".to_vec(), b"same".to_vec(), (0..=255).collect()],
        0,
    );
}

#[test]
fn h81_manifest_written_after_other_data() {
    let packs = make_packs(&[1]);
    for origin in [1u64, 100, 70000] {
        manifest_case(&packs, &["loc".to_string()], &[b"free".to_vec(), vec![]], origin);
    }
}

#[test]
fn h82_manifest_only_directory() {
    let packs = make_packs(&[]);
    manifest_case(&packs, &["dir".to_string()], &[vec![]], 0);
}

// ---------------------------------------------------------------------------------------------
// H9 : container pack and full containers (BasicCreator), every concat mode
// ---------------------------------------------------------------------------------------------

struct OneStore {
    store: Box<creator::EntryStore<PN, VN, Entry>>,
    values: creator::StoreHandle,
    count: u32,
}

impl creator::EntryStoreTrait for OneStore {
    fn finalize(self: Box<Self>, directory_pack: &mut creator::DirectoryPackCreator) {
        directory_pack.add_value_store(self.values);
        let id = directory_pack.add_entry_store(self.store);
        directory_pack.create_index(
            "the index",
            [1, 2, 3, 4].into(),
            0.into(),
            id,
            self.count.into(),
            jbk::EntryIdx::from(0).into(),
        );
    }
}

fn basic_case(mode: creator::ConcatMode, compression: creator::Compression, name: &str) {
    let dir = tmp();
    let out = dir.path().join(format!("{name}.jbk"));
    let mut c = creator::BasicCreator::new(upath(&out), mode, VENDOR, compression, std::sync::Arc::new(())).unwrap();
    let values = creator::ValueStore::new_indexed();
    let schema = variant_schema(
        vec![schema::Property::new_array(1, values.clone(), "name")],
        vec![
            ("file", vec![schema::Property::new_content_address("content"), schema::Property::new_uint("size")]),
            ("link", vec![schema::Property::new_array(0, values.clone(), "target")]),
        ],
    );
    let mut store = Box::new(creator::EntryStore::new(schema, None));
    let mut blobs = vec![];
    let mut entries: Vec<InEntry> = vec![];
    for i in 0..20usize {
        let blob = if i % 2 == 0 { text(i * 1000, i as u32) } else { pattern(i * 100, i as u32) };
        let addr = c
            .add_content(Box::new(std::io::Cursor::new(blob.clone())), creator::CompHint::Detect)
            .unwrap();
        entries.push((
            Some("file"),
            vec![
                ("name", In::A(format!("file {i}").into_bytes())),
                ("content", In::C(addr.pack_id.into_u16(), addr.content_id.into_u32())),
                ("size", In::U(blob.len() as u64)),
            ],
        ));
        blobs.push(blob);
        entries.push((
            Some("link"),
            vec![("name", In::A(format!("link {i}").into_bytes())), ("target", In::A(format!("file {i}").into_bytes()))],
        ));
    }
    for (variant, values) in &entries {
        let values: HashMap<PN, jbk::Value> = values.iter().map(|(n, v)| (*n, v.value())).collect();
        store.add_entry(Entry::new_from_schema(&store.schema, *variant, values));
    }
    c.finalize(
        Box::new(OneStore {
            store,
            values,
            count: entries.len() as u32,
        }),
        vec![],
    )
    .unwrap();

    // Independent decoding : every file of the directory is either a pack or a container of packs
    let mut found: HashMap<u8, Vec<Vec<u8>>> = HashMap::new();
    for f in std::fs::read_dir(dir.path()).unwrap() {
        let f = f.unwrap().path();
        let bytes = std::fs::read(&f).unwrap();
        let header = dec::pack_header_from(dec::block(&bytes, 0, 60).unwrap()).unwrap();
        if header.kind == b'C' {
            let (_, free, locators) = dec::container_pack(&bytes).expect("decoder must accept the container");
            assert_eq!(free, [0; 24]);
            for l in locators {
                let inner = bytes[l.offset as usize..(l.offset + l.size) as usize].to_vec();
                let h = dec::pack_frame(&inner).expect("frame of contained pack").0;
                found.entry(h.kind).or_default().push(inner);
            }
        } else {
            found.entry(header.kind).or_default().push(bytes);
        }
    }
    assert_eq!(found[&b'm'].len(), 1);
    assert_eq!(found[&b'd'].len(), 1);
    assert_eq!(found[&b'c'].len(), 1);
    let m = dec::manifest_pack(&found[&b'm'][0]).expect("decoder must accept the manifest");
    let d = dec::directory_pack(&found[&b'd'][0]).expect("decoder must accept the directory");
    let cp = dec::content_pack(&found[&b'c'][0]).expect("decoder must accept the content pack");
    assert_eq!(m.packs.len(), 2);
    for p in &m.packs {
        let (h, hash) = match p.kind {
            b'd' => (&d.header, dec::pack_frame(&found[&b'd'][0]).unwrap().1),
            b'c' => (&cp.header, dec::pack_frame(&found[&b'c'][0]).unwrap().1),
            k => panic!("unexpected kind {k}"),
        };
        assert_eq!(p.uuid, h.uuid);
        assert_eq!(p.size, h.size);
        assert_eq!(p.check_hash, hash, "check info of the pack is copied in the manifest");
    }
    assert_eq!(cp.infos.len(), blobs.len());
    for (i, (variant, values)) in entries.iter().enumerate() {
        let (dvariant, dvalues) = d.entry(0, i).unwrap();
        assert_eq!(dvariant.as_deref(), *variant);
        let dmap: HashMap<&str, &Val> = dvalues.iter().map(|(n, v)| (n.as_str(), v)).collect();
        for (name, value) in values {
            assert_eq!(dmap.get(name).copied(), Some(&value.val()), "decoder: entry {i} value {name}");
        }
    }
    for (i, blob) in blobs.iter().enumerate() {
        let (cluster, b) = cp.infos[i];
        let cl = &cp.clusters[cluster as usize];
        assert_eq!(cl.offsets[b as usize + 1] - cl.offsets[b as usize], blob.len() as u64);
        if cl.comp == 0 {
            assert_eq!(cp.content(&found[&b'c'][0], i).unwrap(), &blob[..]);
        }
    }

    // The reader
    let container = jbk::reader::Container::new(&out).expect("reader must open the container");
    assert!(container.check().unwrap());
    let index = container.get_index_for_name("the index").unwrap().unwrap();
    let builder = jbk::reader::builder::AnyBuilder::new(
        index.get_store(container.get_entry_storage()).unwrap(),
        container.get_value_storage().as_ref(),
    )
    .unwrap();
    let names = ["file", "link"];
    let mut blob_idx = 0;
    for (i, (variant, values)) in entries.iter().enumerate() {
        let entry = index.get_entry(&builder, (i as u32).into()).unwrap().unwrap();
        assert_eq!(entry.get_variant_id().unwrap().map(|v| names[v.into_usize()]), *variant);
        for (name, value) in values {
            let r = entry.get_value(name).unwrap().unwrap();
            if let jbk::reader::RawValue::Content(addr) = &r {
                let bytes = container.get_bytes(*addr).unwrap().and_then(|m| m.transpose()).unwrap().unwrap();
                assert!(read_all(bytes) == blobs[blob_idx]);
                blob_idx += 1;
            }
            assert_eq!(raw_to_val(r), value.val());
        }
    }
}

#[test]
fn h90_basic_creator_all_modes() {
    for (i, mode) in [creator::ConcatMode::OneFile, creator::ConcatMode::TwoFiles, creator::ConcatMode::NoConcat]
        .into_iter()
        .enumerate()
    {
        basic_case(mode, creator::Compression::None, &format!("none_{i}"));
        basic_case(mode, creator::Compression::zstd(), &format!("zstd_{i}"));
    }
}

#[test]
fn h91_container_pack_creator() {
    // Container built by hand with add_pack
    let packs = make_packs(&[1, 2]);
    let out = packs.dir.path().join("container.jbk");
    let free_data = [9u8; 24];
    let mut c = creator::ContainerPackCreator::new(upath(&out), free_data.into()).unwrap();
    let mut expected = vec![];
    for (path, data) in std::iter::once((&packs.directory.0, &packs.directory.1))
        .chain(packs.contents.iter().map(|c| (&c.0, &c.1)))
    {
        let mut f = std::fs::File::open(path).unwrap();
        c.add_pack(data.uuid, &mut f).unwrap();
        expected.push((*data.uuid.as_bytes(), std::fs::read(path).unwrap()));
    }
    c.finalize().unwrap();
    let bytes = std::fs::read(&out).unwrap();
    let (_, free, locators) = dec::container_pack(&bytes).expect("decoder must accept the container");
    assert_eq!(free, free_data);
    assert_eq!(locators.len(), expected.len());
    for (l, (uuid, content)) in locators.iter().zip(&expected) {
        assert_eq!(l.uuid, *uuid);
        assert!(bytes[l.offset as usize..(l.offset + l.size) as usize] == content[..]);
    }
    let container = jbk::reader::ContainerPack::new(reader_of(&out)).unwrap();
    assert_eq!(container.pack_count().into_u16() as usize, expected.len());
    assert!(container.check().unwrap());

    // empty container
    let out = packs.dir.path().join("empty.jbk");
    creator::ContainerPackCreator::new(upath(&out), free_data.into())
        .unwrap()
        .finalize()
        .unwrap();
    let bytes = std::fs::read(&out).unwrap();
    let (_, _, locators) = dec::container_pack(&bytes).expect("decoder must accept the empty container");
    assert!(locators.is_empty());
    assert_eq!(jbk::reader::ContainerPack::new(reader_of(&out)).unwrap().pack_count().into_u16(), 0);
}

// ---------------------------------------------------------------------------------------------
// More of H4 : several entry stores and indexes, duplicates in plain store, delayed values
// ---------------------------------------------------------------------------------------------

#[test]
fn h43_several_entry_stores_and_indexes() {
    let dir = tmp();
    let path = dir.path().join("multi.jbkd");
    let mut c = creator::DirectoryPackCreator::new(jbk::PackId::from(0), VENDOR, [7u8; 24].into());
    let vs = creator::ValueStore::new_indexed();
    c.add_value_store(vs.clone());
    let mut ids = vec![];
    let mut all_entries = vec![];
    for s in 0..3u64 {
        let schema = if s == 1 {
            simple_schema(vec![schema::Property::new_array(0, vs.clone(), "a"), schema::Property::new_uint("u")])
        } else {
            simple_schema(vec![schema::Property::new_uint("u")])
        };
        let mut store = Box::new(creator::EntryStore::new(schema, None));
        let mut entries: Vec<InEntry> = vec![];
        for e in 0..(s + 2) {
            let mut values = vec![("u", In::U(s * 1000 + e * 300))];
            if s == 1 {
                values.push(("a", In::A(format!("{s}-{e}").into_bytes())));
            }
            let map: HashMap<PN, jbk::Value> = values.iter().map(|(n, v)| (*n, v.value())).collect();
            store.add_entry(Entry::new_from_schema(&store.schema, None, map));
            entries.push((None, values));
        }
        ids.push(c.add_entry_store(store));
        all_entries.push(entries);
    }
    // indexes : not in the order of the stores, and with sub ranges
    let index_defs: Vec<(&str, usize, u32, u32, u8)> =
        vec![("third", 2, 4, 0, 1), ("first", 0, 1, 1, 0), ("second", 1, 2, 1, 2), ("empty", 1, 0, 0, 0)];
    for (name, store, count, offset, key) in &index_defs {
        c.create_index(
            name,
            [*key, 0, 0, 9].into(),
            (*key).into(),
            ids[*store],
            (*count).into(),
            jbk::EntryIdx::from(*offset).into(),
        );
    }
    let mut file = std::fs::OpenOptions::new().read(true).write(true).create(true).truncate(true).open(&path).unwrap();
    c.finalize().unwrap().write(&mut file).unwrap();
    drop(file);

    let bytes = std::fs::read(&path).unwrap();
    let d = dec::directory_pack(&bytes).expect("decoder must accept the pack");
    assert_eq!(d.entry_stores.len(), 3);
    assert_eq!(d.indexes.len(), index_defs.len());
    let pack = std::sync::Arc::new(jbk::reader::DirectoryPack::new(reader_of(&path)).unwrap());
    let entry_storage = pack.create_entry_storage();
    let value_storage = pack.create_value_storage();
    for (i, (name, store, count, offset, key)) in index_defs.iter().enumerate() {
        let di = &d.indexes[i];
        assert_eq!((di.name.as_str(), di.store_id as usize, di.count, di.offset, di.key), (*name, *store, *count, *offset, *key));
        assert_eq!(di.free_data, [*key, 0, 0, 9]);
        let index = pack.get_index_from_name(name).unwrap().unwrap();
        assert_eq!(index.get_store_id().into_u32() as usize, *store);
        assert_eq!(index.count().into_u32(), *count);
        assert_eq!(index.offset().into_u32(), *offset);
        let builder =
            jbk::reader::builder::AnyBuilder::new(index.get_store(&entry_storage).unwrap(), value_storage.as_ref()).unwrap();
        for e in 0..*count {
            let expected = &all_entries[*store][(offset + e) as usize].1;
            let (_, dvalues) = d.entry(*store, (offset + e) as usize).unwrap();
            let entry = index.get_entry(&builder, e.into()).unwrap().unwrap();
            for (n, v) in expected {
                assert!(dvalues.iter().any(|(dn, dv)| dn == n && *dv == v.val()));
                assert_eq!(raw_to_val(entry.get_value(n).unwrap().unwrap()), v.val());
            }
        }
    }
}

#[test]
fn h44_plain_store_duplicates_and_prefixes() {
    let store = creator::ValueStore::new_plain(None);
    let words = ["", "a", "ab", "abc", "abc", "ab", "", "b", "abcd", "a", "zzz", "zz", "zzz"];
    let entries: Vec<InEntry> = (0..words.len() * 3)
        .map(|i| (None, vec![("a", In::A(words[i % words.len()].as_bytes().to_vec())), ("n", In::U(i as u64))]))
        .collect();
    dir_case(
        "plain_dups",
        &[store.clone()],
        simple_schema(vec![schema::Property::new_array(0, store, "a"), schema::Property::new_uint("n")]),
        &entries,
        &[],
    );
    // All the values are the same (array part is not a constant : the creator never makes default arrays)
    let store = creator::ValueStore::new_plain(None);
    let entries: Vec<InEntry> = (0..4).map(|_| (None, vec![("a", In::A(b"same value".to_vec()))])).collect();
    dir_case(
        "plain_same",
        &[store.clone()],
        simple_schema(vec![schema::Property::new_array(3, store, "a")]),
        &entries,
        &[],
    );
}

#[test]
fn h45_delayed_values() {
    // UnsignedWord : the value is known only at finalization (index of another entry)
    let dir = tmp();
    let path = dir.path().join("words.jbkd");
    let mut c = creator::DirectoryPackCreator::new(jbk::PackId::from(0), VENDOR, [7u8; 24].into());
    let schema = simple_schema(vec![schema::Property::new_uint("parent"), schema::Property::new_sint("delta")]);
    let mut store = Box::new(creator::EntryStore::new(schema, None));
    let mut expected: Vec<InEntry> = vec![];
    let mut previous: Option<jbk::Bound<jbk::EntryIdx>> = None;
    for i in 0..300u64 {
        let parent = match &previous {
            None => jbk::Value::Unsigned(0),
            Some(b) => jbk::Value::UnsignedWord(b.clone().into()),
        };
        let delta: i64 = 150 - i as i64;
        let e = Entry::new_from_schema(
            &store.schema,
            None,
            HashMap::from([("parent", parent), ("delta", jbk::Value::SignedWord(delta.into()))]),
        );
        previous = Some(store.add_entry(e));
        expected.push((None, vec![("parent", In::U(i.saturating_sub(1))), ("delta", In::S(delta))]));
    }
    let id = c.add_entry_store(store);
    c.create_index("the index", [1, 2, 3, 4].into(), 0.into(), id, 300.into(), jbk::EntryIdx::from(0).into());
    let mut file = std::fs::OpenOptions::new().read(true).write(true).create(true).truncate(true).open(&path).unwrap();
    let data = c.finalize().unwrap().write(&mut file).unwrap();
    drop(file);
    check_directory_pack(&path, &data, &expected, &[]);
}

#[test]
fn h24_content_from_file_ranges() {
    let dir = tmp();
    let src = dir.path().join("source.bin");
    let source = pattern(300_000, 42);
    std::fs::write(&src, &source).unwrap();
    for compression in [creator::Compression::None, creator::Compression::zstd()] {
        let path = dir.path().join("from_files.jbkc");
        let mut c = creator::ContentPackCreator::new(upath(&path), jbk::PackId::from(3), VENDOR, [0x5A; 24].into(), compression)
            .unwrap();
        let ranges: Vec<(u64, Option<u64>)> =
            vec![(0, None), (0, Some(0)), (10, Some(255)), (299_999, Some(1)), (300_000, Some(0)), (1000, Some(65536)), (5, None)];
        let mut contents = vec![];
        for (i, (origin, size)) in ranges.iter().enumerate() {
            let f = std::fs::File::open(&src).unwrap();
            let input = creator::InputFile::new_range(f, *origin, *size).unwrap();
            let hint = match i % 3 {
                0 => creator::CompHint::Yes,
                1 => creator::CompHint::No,
                _ => creator::CompHint::Detect,
            };
            c.add_content(Box::new(input), hint).unwrap();
            let end = match size {
                None => source.len(),
                Some(s) => (*origin + *s) as usize,
            };
            contents.push(source[*origin as usize..end].to_vec());
        }
        let (_f, data) = c.finalize().unwrap();
        check_content_pack(&path, &contents, &data, [0x5A; 24]);
    }
}

// ---------------------------------------------------------------------------------------------
// More of H6 / H8 : counts stored on u8 / u16
// ---------------------------------------------------------------------------------------------

#[test]
fn h65_value_store_count_u8() {
    for count in [255usize, 256, 257] {
        let dir = tmp();
        let path = dir.path().join("stores.jbkd");
        let stores: Vec<creator::StoreHandle> = (0..count).map(|_| creator::ValueStore::new_plain(None)).collect();
        // The array uses the last store
        let last = stores[count - 1].clone();
        let entries: Vec<InEntry> = (0..3usize).map(|i| (None, vec![("a", In::A(text(i + 1, 0)))])).collect();
        let created = make_directory_pack(
            &path,
            &stores,
            simple_schema(vec![schema::Property::new_array(0, last, "a")]),
            &entries,
            0,
        );
        match created {
            Err(_) => {}
            Ok(data) => {
                let bytes = std::fs::read(&path).unwrap();
                let d = dec::directory_pack(&bytes).expect("decoder must accept the pack");
                assert_eq!(d.value_stores.len(), count, "number of value stores");
                check_directory_pack(&path, &data, &entries, &[]);
            }
        }
    }
}

#[test]
fn h83_manifest_pack_count_u16() {
    let packs = make_packs(&[1]);
    for count in [65535usize, 65536] {
        let mut c = creator::ManifestPackCreator::new(VENDOR, [0; 24].into());
        c.add_pack(copy_pack_data(&packs.directory.1, vec![]), "d");
        for _ in 1..count {
            // alternatives of the same content pack
            c.add_pack(copy_pack_data(&packs.contents[0].1, vec![]), "c");
        }
        let path = packs.dir.path().join(format!("manifest_{count}.jbkm"));
        let mut file = std::fs::OpenOptions::new().read(true).write(true).create(true).truncate(true).open(&path).unwrap();
        let created = c.finalize(&mut file);
        drop(file);
        if created.is_err() {
            continue;
        }
        let bytes = std::fs::read(&path).unwrap();
        let d = dec::manifest_pack(&bytes).expect("decoder must accept the manifest");
        assert_eq!(d.packs.len(), count, "number of packs in the manifest");
        let m = jbk::reader::ManifestPack::new(reader_of(&path)).expect("reader must open the manifest");
        assert!(m.check().unwrap());
    }
}

// ---------------------------------------------------------------------------------------------
// More of H2 : the other compressions (run with `--features lz4,lzma`)
// ---------------------------------------------------------------------------------------------

fn all_compressions() -> Vec<(&'static str, creator::Compression)> {
    #[allow(unused_mut)]
    let mut v = vec![("none", creator::Compression::None), ("zstd", creator::Compression::zstd())];
    #[cfg(feature = "lz4")]
    {
        v.push(("lz4", creator::Compression::lz4()));
        v.push(("lz4_0", creator::Compression::Lz4(0u32.try_into().unwrap())));
        v.push(("lz4_15", creator::Compression::Lz4(15u32.try_into().unwrap())));
    }
    #[cfg(feature = "lzma")]
    {
        v.push(("lzma", creator::Compression::lzma()));
        v.push(("lzma_0", creator::Compression::Lzma(0u32.try_into().unwrap())));
    }
    v
}

#[test]
fn h25_content_every_compression() {
    for (name, compression) in all_compressions() {
        let mut contents: Vec<Vec<u8>> = vec![vec![], pattern(1, 1), text(255, 2), text(256, 3), pattern(65536, 4), vec![]];
        for i in 0..6 {
            contents.push(text(1024 * 1024 + 17 * i, i as u32));
        }
        content_case(&format!("{name}_yes"), compression, contents.clone(), |_| creator::CompHint::Yes);
        content_case(&format!("{name}_mix"), compression, contents.clone(), |i| {
            if i % 2 == 0 {
                creator::CompHint::Yes
            } else {
                creator::CompHint::No
            }
        });
        content_case(&format!("{name}_incompressible"), compression, vec![pattern(70000, 5)], |_| {
            creator::CompHint::Yes
        });
        content_case(&format!("{name}_only_empty"), compression, vec![vec![]], |_| creator::CompHint::Yes);
    }
}

#[test]
fn h92_basic_creator_every_compression() {
    for (name, compression) in all_compressions() {
        basic_case(creator::ConcatMode::OneFile, compression, &format!("basic_{name}"));
    }
}

// ---------------------------------------------------------------------------------------------
// More of H8/H9 : tools (set_location rewrites bytes of the manifest, concat writes a container)
// ---------------------------------------------------------------------------------------------

fn write_manifest(packs: &Packs, path: &Path, locations: &[&str]) -> Vec<(creator::PackData, String)> {
    let mut c = creator::ManifestPackCreator::new(VENDOR, [0xC3u8; 24].into());
    let mut expected = vec![];
    let mut all = vec![&packs.directory.1];
    all.extend(packs.contents.iter().map(|c| &c.1));
    for (i, data) in all.iter().enumerate() {
        let fd = vec![i as u8; i];
        c.add_pack(copy_pack_data(data, fd.clone()), locations[i]);
        expected.push((copy_pack_data(data, fd), locations[i].to_string()));
    }
    let mut file = std::fs::OpenOptions::new().read(true).write(true).create(true).truncate(true).open(path).unwrap();
    c.finalize(&mut file).unwrap();
    expected
}

#[test]
fn h84_set_location_keeps_the_manifest_valid() {
    let packs = make_packs(&[1, 2]);
    let path = packs.dir.path().join("m.jbkm");
    let mut expected = write_manifest(&packs, &path, &["directory.jbkd", "content_1.jbkc", "content_2.jbkc"]);
    let before = std::fs::read(&path).unwrap();
    for (i, new_location) in ["", "x", &"z".repeat(213)].iter().enumerate() {
        let uuid = expected[i].0.uuid;
        let old = jbk::tools::set_location(&path, uuid, (*new_location).into()).unwrap().unwrap();
        assert_eq!(old.1.as_str(), expected[i].1);
        expected[i].1 = new_location.to_string();
        let bytes = std::fs::read(&path).unwrap();
        assert_eq!(bytes.len(), before.len());
        check_manifest_bytes(&bytes, reader_of(&path), &expected, [0xC3u8; 24]);
    }

    // The manifest in a container (not at offset 0 of the file)
    let cpath = packs.dir.path().join("container.jbk");
    jbk::tools::concat(&[&packs.contents[0].0, &path, &packs.directory.0], upath(&cpath)).unwrap();
    let uuid = expected[1].0.uuid;
    jbk::tools::set_location(&cpath, uuid, "moved/elsewhere.jbkc".into()).unwrap().unwrap();
    expected[1].1 = "moved/elsewhere.jbkc".to_string();
    let bytes = std::fs::read(&cpath).unwrap();
    let (_, _, locators) = dec::container_pack(&bytes).expect("decoder must accept the container");
    let mut manifests = 0;
    for l in &locators {
        let inner = &bytes[l.offset as usize..(l.offset + l.size) as usize];
        if dec::pack_frame(inner).unwrap().0.kind == b'm' {
            manifests += 1;
            let alone = packs.dir.path().join("extracted.jbkm");
            std::fs::write(&alone, inner).unwrap();
            check_manifest_bytes(inner, reader_of(&alone), &expected, [0xC3u8; 24]);
        }
    }
    assert_eq!(manifests, 1);
}

#[test]
fn h94_concat_and_prepended_data() {
    let packs = make_packs(&[1]);
    let mpath = packs.dir.path().join("m.jbkm");
    // Location are wrong on purpose : packs must be found in the container
    write_manifest(&packs, &mpath, &["", ""]);
    let cpath = packs.dir.path().join("all.jbk");
    jbk::tools::concat(&[&mpath, &packs.directory.0, &packs.contents[0].0], upath(&cpath)).unwrap();
    let bytes = std::fs::read(&cpath).unwrap();
    let (_, _, locators) = dec::container_pack(&bytes).expect("decoder must accept the container");
    assert_eq!(locators.len(), 3);

    let read = |path: &Path| {
        let container = jbk::reader::Container::new(path).expect("reader must open the container");
        assert!(container.check().unwrap());
        let index = container.get_index_for_name("the index").unwrap().unwrap();
        let builder = jbk::reader::builder::AnyBuilder::new(
            index.get_store(container.get_entry_storage()).unwrap(),
            container.get_value_storage().as_ref(),
        )
        .unwrap();
        for (i, (_, values)) in packs.entries.iter().enumerate() {
            let entry = index.get_entry(&builder, (i as u32).into()).unwrap().unwrap();
            for (name, value) in values {
                let r = entry.get_value(name).unwrap().unwrap();
                if let jbk::reader::RawValue::Content(addr) = &r {
                    let b = container.get_bytes(*addr).unwrap().and_then(|m| m.transpose()).unwrap().unwrap();
                    assert!(read_all(b) == packs.contents[0].2[addr.content_id.into_u32() as usize]);
                }
                assert_eq!(raw_to_val(r), value.val());
            }
        }
    };
    read(&cpath);

    // A container after other data (self extracting archive) is found by its tail
    let ppath = packs.dir.path().join("prefixed.jbk");
    for prefix in [1usize, 63, 64, 1000] {
        let mut prefixed = pattern(prefix, 3);
        prefixed.extend_from_slice(&bytes);
        std::fs::write(&ppath, &prefixed).unwrap();
        read(&ppath);
    }
}

#[test]
fn h95_basic_creator_extra_content_packs() {
    for mode in [creator::ConcatMode::OneFile, creator::ConcatMode::NoConcat] {
        let dir = tmp();
        let out = dir.path().join("extra.jbk");
        let mut c =
            creator::BasicCreator::new(upath(&out), mode, VENDOR, creator::Compression::None, std::sync::Arc::new(())).unwrap();
        let values = creator::ValueStore::new_plain(None);
        let schema = simple_schema(vec![
            schema::Property::new_array(0, values.clone(), "name"),
            schema::Property::new_content_address("content"),
        ]);
        let mut store = Box::new(creator::EntryStore::new(schema, None));
        let mut extras: Vec<creator::ContentPackCreator<dyn creator::PackRecipient>> = vec![];
        for id in [2u16, 300, 65535] {
            let f: Box<dyn creator::PackRecipient> =
                creator::AtomicOutFile::new(upath(&dir.path().join(format!("extra_{id}.jbkc")))).unwrap();
            extras.push(
                creator::ContentPackCreator::new_from_output(f, id.into(), VENDOR, [id as u8; 24].into(), creator::Compression::None)
                    .unwrap(),
            );
        }
        let mut blobs: HashMap<(u16, u32), Vec<u8>> = HashMap::new();
        let mut entries: Vec<InEntry> = vec![];
        for i in 0..12usize {
            let blob = text(i * 10 + 1, i as u32);
            let addr = if i % 4 == 0 {
                c.add_content(Box::new(std::io::Cursor::new(blob.clone())), creator::CompHint::No).unwrap()
            } else {
                extras[i % 4 - 1]
                    .add_content(Box::new(std::io::Cursor::new(blob.clone())), creator::CompHint::No)
                    .unwrap()
            };
            let key = (addr.pack_id.into_u16(), addr.content_id.into_u32());
            blobs.insert(key, blob);
            entries.push((None, vec![("name", In::A(format!("entry {i}").into_bytes())), ("content", In::C(key.0, key.1))]));
        }
        for (variant, values) in &entries {
            let values: HashMap<PN, jbk::Value> = values.iter().map(|(n, v)| (*n, v.value())).collect();
            store.add_entry(Entry::new_from_schema(&store.schema, *variant, values));
        }
        c.finalize(
            Box::new(OneStore {
                store,
                values,
                count: entries.len() as u32,
            }),
            extras,
        )
        .unwrap();

        // decoder : find the manifest, check the 5 packs
        let mut manifest = None;
        let mut content_packs: HashMap<[u8; 16], Vec<u8>> = HashMap::new();
        for f in std::fs::read_dir(dir.path()).unwrap() {
            let bytes = std::fs::read(f.unwrap().path()).unwrap();
            let header = dec::pack_header_from(dec::block(&bytes, 0, 60).unwrap()).unwrap();
            let inners: Vec<Vec<u8>> = if header.kind == b'C' {
                dec::container_pack(&bytes)
                    .expect("decoder must accept the container")
                    .2
                    .iter()
                    .map(|l| bytes[l.offset as usize..(l.offset + l.size) as usize].to_vec())
                    .collect()
            } else {
                vec![bytes]
            };
            for inner in inners {
                let h = dec::pack_frame(&inner).unwrap().0;
                match h.kind {
                    b'm' => manifest = Some(dec::manifest_pack(&inner).expect("decoder must accept the manifest")),
                    b'c' => {
                        content_packs.insert(h.uuid, inner);
                    }
                    _ => {}
                }
            }
        }
        let manifest = manifest.unwrap();
        assert_eq!(manifest.packs.len(), 5);
        for p in manifest.packs.iter().filter(|p| p.kind == b'c') {
            let bytes = &content_packs[&p.uuid];
            let cp = dec::content_pack(bytes).unwrap();
            if p.id != 1 {
                assert_eq!(cp.free_data, [p.id as u8; 24]);
            }
            for i in 0..cp.infos.len() {
                assert_eq!(cp.content(bytes, i).unwrap(), &blobs[&(p.id, i as u32)][..]);
            }
        }

        let container = jbk::reader::Container::new(&out).expect("reader must open the container");
        assert!(container.check().unwrap());
        assert_eq!(container.pack_count().into_u16(), 5);
        for ((pack, content), blob) in &blobs {
            let addr = jbk::ContentAddress::new((*pack).into(), (*content).into());
            let b = container.get_bytes(addr).unwrap().and_then(|m| m.transpose()).unwrap().unwrap();
            assert!(read_all(b) == *blob);
        }
    }
}

#[test]
fn h96_container_pack_count_u16() {
    let packs = make_packs(&[]);
    let pack = std::fs::read(&packs.directory.0).unwrap();
    for count in [65535usize, 65536] {
        let out = packs.dir.path().join(format!("container_{count}.jbk"));
        let mut c = creator::ContainerPackCreator::new(upath(&out), [0; 24].into()).unwrap();
        // only the first one is a real pack, the others are empty
        c.add_pack(packs.directory.1.uuid, &mut std::io::Cursor::new(&pack)).unwrap();
        for _ in 1..count {
            c.add_pack(packs.directory.1.uuid, &mut std::io::empty()).unwrap();
        }
        if c.finalize().is_err() {
            continue;
        }
        let bytes = std::fs::read(&out).unwrap();
        let (header, _) = dec::pack_frame(&bytes).expect("frame of the container");
        let mut h = dec::Cur::new(dec::block(&bytes, 64, 60).unwrap());
        let locators_pos = h.u64().unwrap();
        let declared = h.u16().unwrap() as u64;
        assert_eq!(
            (header.check_pos - locators_pos) / 36,
            count as u64,
            "the {count} locators are written"
        );
        assert_eq!(declared, count as u64, "the declared number of packs is the number of locators written");
    }
}

/// Heavy (4 GiB of disk and of memory) : run with `--release -- --ignored`
#[test]
#[ignore]
fn h14_content_cluster_bigger_than_4gib() {
    let dir = tmp();
    let src = dir.path().join("sparse.bin");
    let big: u64 = (1 << 32) + 5;
    {
        let mut f = std::fs::File::create(&src).unwrap();
        f.write_all(b"start").unwrap();
        f.set_len(big).unwrap();
        f.seek(SeekFrom::Start(big - 3)).unwrap();
        f.write_all(b"end").unwrap();
    }
    let path = dir.path().join("big.jbkc");
    let mut c = creator::ContentPackCreator::new(
        upath(&path),
        jbk::PackId::from(1),
        VENDOR,
        [0; 24].into(),
        creator::Compression::None,
    )
    .unwrap();
    c.add_content(Box::new(std::io::Cursor::new(b"first".to_vec())), creator::CompHint::No).unwrap();
    c.add_content(Box::new(creator::InputFile::open(&src).unwrap()), creator::CompHint::No).unwrap();
    c.add_content(Box::new(std::io::Cursor::new(b"last".to_vec())), creator::CompHint::No).unwrap();
    let (_f, data) = c.finalize().unwrap();
    std::fs::remove_file(&src).unwrap();

    let bytes = std::fs::read(&path).unwrap();
    let d = dec::content_pack(&bytes).expect("decoder must accept the pack");
    assert_eq!(d.header.size, data.pack_size.into_u64());
    assert_eq!(d.infos.len(), 3);
    assert_eq!(d.content(&bytes, 0).unwrap(), b"first");
    let b = d.content(&bytes, 1).unwrap();
    assert_eq!(b.len() as u64, big);
    assert_eq!(&b[..5], b"start");
    assert_eq!(&b[b.len() - 3..], b"end");
    assert!(b[5..b.len() - 3].iter().all(|x| *x == 0));
    assert_eq!(d.content(&bytes, 2).unwrap(), b"last");
    drop(bytes);

    let pack = jbk::reader::ContentPack::new(reader_of(&path)).unwrap();
    assert!(pack.check().unwrap());
    assert_eq!(read_all(pack.get_content(0.into()).unwrap().unwrap()), b"first");
    let region = pack.get_content(1.into()).unwrap().unwrap();
    assert_eq!(region.size().into_u64(), big);
    assert_eq!(&region.get_slice(0u64.into(), 5).unwrap()[..], b"start");
    assert_eq!(&region.get_slice((big - 3).into(), 3).unwrap()[..], b"end");
    assert_eq!(&region.get_slice(((1u64 << 32) - 2).into(), 4).unwrap()[..], &[0, 0, 0, 0]);
    assert_eq!(read_all(pack.get_content(2.into()).unwrap().unwrap()), b"last");
}
