//! Bug hunt for property C12:
//! "Rewriting a pack location changes only that location; the manifest stays valid".
//!
//! Every test PASSES when the property holds and FAILS when it is violated.

use jubako as jbk;

use jbk::creator;
use jbk::creator::schema;
use jbk::reader::{ManifestPack, PackInfo};
use jbk::Pack;
use std::collections::HashMap;
use std::fs::OpenOptions;
use std::io::{Read, Seek, Write};
use std::path::{Path, PathBuf};
use std::sync::Arc;
use uuid::Uuid;

const VENDOR: jbk::VendorId = jbk::VendorId::new([1, 2, 3, 4]);

// ---------------------------------------------------------------------------------------------
// Builders
// ---------------------------------------------------------------------------------------------

fn utf8(p: &Path) -> jbk::Utf8PathBuf {
    jbk::Utf8PathBuf::from_path_buf(p.to_path_buf()).unwrap()
}

fn content_text(pack_id: u16, idx: usize) -> Vec<u8> {
    format!("content number {idx} of pack {pack_id} ")
        .repeat(3 + idx)
        .into_bytes()
}

/// A content pack, in its own file, holding `nb` contents.
fn make_content_pack(
    path: &Path,
    pack_id: u16,
    nb: usize,
    compression: creator::Compression,
) -> creator::PackData {
    let mut c = creator::ContentPackCreator::new(
        utf8(path),
        jbk::PackId::from(pack_id),
        VENDOR,
        Default::default(),
        compression,
    )
    .unwrap();
    for idx in 0..nb {
        c.add_content(
            Box::new(std::io::Cursor::new(content_text(pack_id, idx))),
            Default::default(),
        )
        .unwrap();
    }
    let (_file, data) = c.finalize().unwrap();
    data
}

fn directory_creator(nb_entries: usize) -> creator::DirectoryPackCreator {
    let mut c = creator::DirectoryPackCreator::new(jbk::PackId::from(0), VENDOR, Default::default());
    let value_store = creator::ValueStore::new_plain(None);
    c.add_value_store(value_store.clone());
    let entry_def = schema::Schema::<&str, &str>::new(
        schema::CommonProperties::new(vec![
            schema::Property::new_array(0, value_store, "V0"),
            schema::Property::new_content_address("V1"),
            schema::Property::new_uint("V2"),
        ]),
        vec![],
        None,
    );
    let mut entry_store = Box::new(creator::EntryStore::new(entry_def, None));
    for idx in 0..nb_entries {
        entry_store.add_entry(creator::BasicEntry::new_from_schema(
            &entry_store.schema,
            None,
            HashMap::from([
                (
                    "V0",
                    jbk::Value::Array(format!("entry{idx}").into_bytes().into()),
                ),
                (
                    "V1",
                    jbk::Value::Content(jbk::ContentAddress::new(1.into(), (idx as u32).into())),
                ),
                ("V2", jbk::Value::Unsigned(idx as u64 * 300)),
            ]),
        ));
    }
    let store_idx = c.add_entry_store(entry_store);
    c.create_index(
        "main",
        Default::default(),
        0.into(),
        store_idx,
        (nb_entries as u32).into(),
        jbk::EntryIdx::from(0).into(),
    );
    c
}

/// A directory pack, in its own file, with `nb_entries` entries pointing to pack 1.
fn make_directory_pack(path: &Path, nb_entries: usize) -> creator::PackData {
    let c = directory_creator(nb_entries);
    let mut f = OpenOptions::new()
        .read(true)
        .write(true)
        .create(true)
        .truncate(true)
        .open(path)
        .unwrap();
    c.finalize().unwrap().write(&mut f).unwrap()
}

/// A standalone manifest file
fn make_manifest(path: &Path, packs: Vec<(creator::PackData, String)>) -> Uuid {
    let mut m = creator::ManifestPackCreator::new(VENDOR, Default::default());
    for (data, loc) in packs {
        m.add_pack(data, loc);
    }
    let mut f = OpenOptions::new()
        .read(true)
        .write(true)
        .create(true)
        .truncate(true)
        .open(path)
        .unwrap();
    m.finalize(&mut f).unwrap()
}

struct Fixture {
    _dir: tempfile::TempDir,
    root: PathBuf,
}

fn fixture() -> Fixture {
    let dir = tempfile::tempdir().unwrap();
    let root = dir.path().to_path_buf();
    Fixture { _dir: dir, root }
}

/// dir pack + `nb_content` content packs, each in its own file, and a standalone manifest.
/// Returns the manifest path and the uuids of the packs, in manifest order.
fn standalone_set(fx: &Fixture, nb_content: usize, with_free_data: bool) -> (PathBuf, Vec<Uuid>) {
    let mut packs = vec![];
    let mut uuids = vec![];
    let mut dir = make_directory_pack(&fx.root.join("d.jbkd"), 3);
    if with_free_data {
        dir.free_data = b"directory free data".to_vec();
    }
    uuids.push(dir.uuid);
    packs.push((dir, "d.jbkd".to_string()));
    for i in 0..nb_content {
        let name = format!("c{i}.jbkc");
        let mut data = make_content_pack(
            &fx.root.join(&name),
            (i + 1) as u16,
            if i == 0 { 3 } else { 0 },
            creator::Compression::None,
        );
        if with_free_data && i % 2 == 0 {
            data.free_data = format!("free data of content pack {i}").into_bytes();
        }
        uuids.push(data.uuid);
        packs.push((data, name));
    }
    let manifest = fx.root.join("m.jbkm");
    make_manifest(&manifest, packs);
    (manifest, uuids)
}

// ---------------------------------------------------------------------------------------------
// Observation
// ---------------------------------------------------------------------------------------------

fn open_manifest(path: &Path) -> ManifestPack {
    let container = jbk::tools::open_pack(path).expect("file must still open");
    let reader = container
        .get_manifest_pack_reader()
        .expect("manifest reader")
        .expect("there is a manifest");
    ManifestPack::new(reader).expect("the manifest must still open")
}

#[derive(Debug, Clone, PartialEq)]
struct Snapshot {
    uuid: Uuid,
    pack_count: u16,
    // directory pack first, then content packs in manifest order
    infos: Vec<PackInfo>,
    free_datas: Vec<Option<Vec<u8>>>,
    check: bool,
}

fn snapshot(path: &Path) -> Snapshot {
    let m = open_manifest(path);
    let mut infos = vec![m.get_directory_pack_info().clone()];
    infos.extend(m.get_pack_infos().iter().cloned());
    let free_datas = infos
        .iter()
        .map(|i| {
            m.get_pack_free_data_raw(i.free_data_id)
                .unwrap()
                .map(|d| d.to_vec())
        })
        .collect();
    Snapshot {
        uuid: m.uuid(),
        pack_count: m.pack_count().into_u16(),
        infos,
        free_datas,
        check: m.check().expect("the check must be computable"),
    }
}

fn location_of(s: &Snapshot, uuid: Uuid) -> String {
    s.infos
        .iter()
        .find(|i| i.uuid == uuid)
        .unwrap()
        .pack_location
        .to_string()
}

fn find_all(hay: &[u8], needle: &[u8]) -> Vec<usize> {
    hay.windows(needle.len())
        .enumerate()
        .filter(|(_, w)| *w == needle)
        .map(|(i, _)| i)
        .collect()
}

/// The bytes of the file may differ only inside the location + crc area (bytes 38..256) of a
/// pack info block which starts with `uuid`.
fn assert_diff_confined(before: &[u8], after: &[u8], uuid: Uuid, ctx: &str) {
    assert_eq!(before.len(), after.len(), "{ctx}: the file size changed");
    let diffs: Vec<usize> = (0..before.len()).filter(|&i| before[i] != after[i]).collect();
    if diffs.is_empty() {
        return;
    }
    let (min, max) = (diffs[0], *diffs.last().unwrap());
    let ok = find_all(after, uuid.as_bytes())
        .into_iter()
        .any(|b| b + 38 <= min && max < b + 256);
    assert!(
        ok,
        "{ctx}: bytes {min}..={max} changed, this is not inside the location/crc of the pack info of {uuid}"
    );
}

/// Rewrite one location and verify everything the property promises.
fn rewrite_and_verify(path: &Path, uuid: Uuid, new_location: &str, ctx: &str) {
    let before_bytes = std::fs::read(path).unwrap();
    let before = snapshot(path);
    assert!(before.check, "{ctx}: manifest check is false BEFORE the rewrite");
    let old_location = location_of(&before, uuid);
    let kind = before.infos.iter().find(|i| i.uuid == uuid).unwrap().pack_kind;

    let ret = jbk::tools::set_location(path, uuid, new_location.into())
        .unwrap_or_else(|e| panic!("{ctx}: set_location failed: {e}"));
    let (ret_kind, ret_old) = ret.unwrap_or_else(|| panic!("{ctx}: pack {uuid} not found"));
    assert_eq!(ret_kind, kind, "{ctx}: kind returned");
    assert_eq!(ret_old.as_str(), old_location, "{ctx}: old location returned");

    let after_bytes = std::fs::read(path).unwrap();
    assert_diff_confined(&before_bytes, &after_bytes, uuid, ctx);

    let after = snapshot(path);
    assert!(after.check, "{ctx}: the global check of the manifest is false");
    assert_eq!(before.uuid, after.uuid, "{ctx}");
    assert_eq!(before.pack_count, after.pack_count, "{ctx}");
    assert_eq!(before.free_datas, after.free_datas, "{ctx}");
    assert_eq!(before.infos.len(), after.infos.len(), "{ctx}");
    for (b, a) in before.infos.iter().zip(after.infos.iter()) {
        if b.uuid == uuid {
            let mut expected = b.clone();
            expected.pack_location = new_location.into();
            assert_eq!(&expected, a, "{ctx}: rewritten pack info");
            assert_eq!(a.pack_location.as_str(), new_location, "{ctx}: read back");
        } else {
            assert_eq!(b, a, "{ctx}: an other pack info changed");
        }
    }
    // Every checksum of what is in the file.
    assert!(
        jbk::tools::open_pack(path).unwrap().check().unwrap(),
        "{ctx}: check of the packs in the file"
    );
}

fn ascii(len: usize) -> String {
    (0..len)
        .map(|i| (b'a' + (i % 26) as u8) as char)
        .collect::<String>()
}

struct Lcg(u64);
impl Lcg {
    fn next(&mut self) -> u64 {
        self.0 = self
            .0
            .wrapping_mul(6364136223846793005)
            .wrapping_add(1442695040888963407);
        self.0 >> 33
    }
}

fn random_location(rng: &mut Lcg) -> String {
    let alphabet = ["a", "/", ".", "é", "ü", "€", "日", "本", "😀", "\u{0}", " ", "\n", "\u{7ff}", "\u{800}", "\u{ffff}", "\u{10000}", "\u{10ffff}"];
    let target = match rng.next() % 6 {
        0 => 0,
        1 => 213,
        2 => 212,
        3 => 1,
        _ => (rng.next() % 214) as usize,
    };
    let mut s = String::new();
    loop {
        let c = alphabet[(rng.next() as usize) % alphabet.len()];
        if s.len() + c.len() > target {
            break;
        }
        s.push_str(c);
    }
    while s.len() < target {
        s.push('x');
    }
    assert!(s.len() <= 213);
    s
}

// ---------------------------------------------------------------------------------------------
// H1: boundary lengths, on every pack (directory pack included) of a standalone manifest
// ---------------------------------------------------------------------------------------------
#[test]
fn h01_standalone_boundary_lengths_every_pack() {
    let fx = fixture();
    let (manifest, uuids) = standalone_set(&fx, 2, false);
    for (n, uuid) in uuids.iter().enumerate() {
        for len in [0usize, 1, 2, 37, 38, 127, 128, 200, 212, 213, 0, 213, 1] {
            rewrite_and_verify(&manifest, *uuid, &ascii(len), &format!("pack {n} len {len}"));
        }
    }
}

// ---------------------------------------------------------------------------------------------
// H2: multi byte utf8, exactly filling the 213 bytes, control chars, NUL
// ---------------------------------------------------------------------------------------------
#[test]
fn h02_multibyte_utf8() {
    let fx = fixture();
    let (manifest, uuids) = standalone_set(&fx, 2, false);
    let locs: Vec<String> = vec![
        "é".repeat(106),                  // 212 bytes
        format!("{}a", "é".repeat(106)),  // 213 bytes
        "€".repeat(71),                   // 213 bytes, 3 bytes chars
        format!("{}x", "😀".repeat(53)),  // 213 bytes, 4 bytes chars
        "😀".repeat(53),                  // 212
        "\u{0}".repeat(213),              // NUL are valid utf8
        "\u{0}".to_string(),
        "\u{10ffff}".repeat(53),
        "\u{7f}\u{80}\u{7ff}\u{800}\u{ffff}\u{10000}".to_string(),
        "file:///some/where/日本語/パック.jbkc".to_string(),
        "../../relative/./path//with spaces\tand\ttabs\n".to_string(),
        "\u{feff}bom".to_string(),
        "\u{d5}".repeat(106), // a 2 bytes char whose second byte is 0x95 (213 = 0xd5)
    ];
    for uuid in &uuids {
        for loc in &locs {
            assert!(loc.len() <= 213);
            rewrite_and_verify(&manifest, *uuid, loc, &format!("loc {loc:?}"));
        }
    }
}

// ---------------------------------------------------------------------------------------------
// H3: long sequences of rewrites, interleaved between packs (long->short leaves no residue, ...)
// ---------------------------------------------------------------------------------------------
#[test]
fn h03_random_sequences() {
    let fx = fixture();
    let (manifest, uuids) = standalone_set(&fx, 4, true);
    let mut rng = Lcg(0xC12);
    let mut expected: HashMap<Uuid, String> = HashMap::new();
    for step in 0..400 {
        let uuid = uuids[(rng.next() as usize) % uuids.len()];
        let loc = random_location(&mut rng);
        rewrite_and_verify(&manifest, uuid, &loc, &format!("step {step}"));
        expected.insert(uuid, loc);
        // All the previous rewrites are still there
        let s = snapshot(&manifest);
        for (u, l) in &expected {
            assert_eq!(&location_of(&s, *u), l, "step {step}");
        }
    }
}

// ---------------------------------------------------------------------------------------------
// H4: a uuid which is not in the manifest changes nothing (standalone and container)
// ---------------------------------------------------------------------------------------------
#[test]
fn h04_unknown_uuid_changes_nothing() {
    let fx = fixture();
    let (manifest, uuids) = standalone_set(&fx, 2, true);
    let manifest_uuid = snapshot(&manifest).uuid;
    let before = std::fs::read(&manifest).unwrap();
    let mut candidates = vec![Uuid::new_v4(), Uuid::nil(), Uuid::max(), manifest_uuid];
    // a uuid differing by one bit only from a known one
    let mut b = *uuids[1].as_bytes();
    b[15] ^= 1;
    candidates.push(Uuid::from_bytes(b));
    let mut b = *uuids[1].as_bytes();
    b[0] ^= 0x80;
    candidates.push(Uuid::from_bytes(b));
    for u in candidates {
        let r = jbk::tools::set_location(&manifest, u, "nowhere".into()).unwrap();
        assert_eq!(r, None, "{u} is not in the manifest");
        assert_eq!(before, std::fs::read(&manifest).unwrap(), "file changed for {u}");
    }
    assert!(snapshot(&manifest).check);
}

// ---------------------------------------------------------------------------------------------
// H5: manifest inside a container, at various offsets (before, between, after the other packs)
// ---------------------------------------------------------------------------------------------
fn container_with_manifest_after(fx: &Fixture, name: &str, filler: usize, manifest_first: bool) -> (PathBuf, Vec<Uuid>) {
    // packs in their own files first
    let dir_path = fx.root.join(format!("{name}.d"));
    let c_path = fx.root.join(format!("{name}.c"));
    let f_path = fx.root.join(format!("{name}.f"));
    let dir = make_directory_pack(&dir_path, 3);
    let content = make_content_pack(&c_path, 1, 3, creator::Compression::None);
    // A content pack used to move the manifest to some offset
    let filler_data = {
        let mut c = creator::ContentPackCreator::new(
            utf8(&f_path),
            jbk::PackId::from(2),
            VENDOR,
            Default::default(),
            creator::Compression::None,
        )
        .unwrap();
        if filler != 0 {
            // incompressible-ish bytes
            let mut rng = Lcg(filler as u64);
            let data: Vec<u8> = (0..filler).map(|_| rng.next() as u8).collect();
            c.add_content(Box::new(std::io::Cursor::new(data)), Default::default())
                .unwrap();
        }
        c.finalize().unwrap().1
    };
    let uuids = vec![dir.uuid, content.uuid, filler_data.uuid];

    let out = fx.root.join(format!("{name}.jbk"));
    let mut container = creator::ContainerPackCreator::new(utf8(&out), Default::default()).unwrap();
    let add = |container: &mut creator::ContainerPackCreator<creator::NamedFile>, uuid: Uuid, p: &Path| {
        let mut f = std::fs::File::open(p).unwrap();
        container.add_pack(uuid, &mut f).unwrap();
    };
    let mut manifest = creator::ManifestPackCreator::new(VENDOR, Default::default());
    let (du, cu, fu) = (dir.uuid, content.uuid, filler_data.uuid);
    manifest.add_pack(dir, "");
    manifest.add_pack(content, "");
    manifest.add_pack(filler_data, "some/initial/location.jbkc");
    if manifest_first {
        let mut infile = container.into_file().unwrap();
        let muuid = manifest.finalize(&mut *infile).unwrap();
        container = infile.close(muuid).unwrap();
        add(&mut container, fu, &f_path);
        add(&mut container, du, &dir_path);
        add(&mut container, cu, &c_path);
    } else {
        add(&mut container, fu, &f_path);
        add(&mut container, du, &dir_path);
        let mut infile = container.into_file().unwrap();
        let muuid = manifest.finalize(&mut *infile).unwrap();
        container = infile.close(muuid).unwrap();
        add(&mut container, cu, &c_path);
    }
    container.finalize().unwrap();
    (out, uuids)
}

fn read_all_contents(path: &Path) -> Vec<Vec<u8>> {
    let container = jbk::reader::Container::new(path).unwrap();
    assert!(container.check().unwrap(), "Container::check");
    let mut out = vec![];
    for idx in 0..3u32 {
        let bytes = container
            .get_bytes(jbk::ContentAddress::new(1.into(), idx.into()))
            .unwrap()
            .and_then(|m| m.transpose())
            .expect("content exists")
            .unwrap();
        let mut v = vec![];
        bytes.stream().read_to_end(&mut v).unwrap();
        out.push(v);
    }
    out
}

#[test]
fn h05_manifest_in_container_at_many_offsets() {
    let fx = fixture();
    let mut n = 0;
    for manifest_first in [true, false] {
        for filler in [0usize, 1, 7, 255, 256, 1021, 4095, 4096, 4097, 65535, 65536, 65537, 200_001] {
            n += 1;
            let (path, uuids) = container_with_manifest_after(&fx, &format!("k{n}"), filler, manifest_first);
            let contents = read_all_contents(&path);
            assert_eq!(contents[2], content_text(1, 2));
            for (i, uuid) in uuids.iter().enumerate() {
                for loc in [ascii(213), "é".repeat(100), String::new(), ascii(1), "x/y.jbkc".to_string()] {
                    rewrite_and_verify(&path, *uuid, &loc, &format!("first={manifest_first} filler={filler} pack={i} loc.len={}", loc.len()));
                }
            }
            // unknown uuid
            let before = std::fs::read(&path).unwrap();
            assert_eq!(jbk::tools::set_location(&path, Uuid::new_v4(), "zz".into()).unwrap(), None);
            assert_eq!(before, std::fs::read(&path).unwrap());
            // content still the same
            assert_eq!(contents, read_all_contents(&path), "content changed");
        }
    }
}

// ---------------------------------------------------------------------------------------------
// H6: what BasicCreator produces, for every packaging; relocation really used by the reader
// ---------------------------------------------------------------------------------------------
struct Store {
    nb: usize,
}
impl creator::EntryStoreTrait for Store {
    fn finalize(self: Box<Self>, directory_pack: &mut creator::DirectoryPackCreator) {
        let value_store = creator::ValueStore::new_plain(None);
        directory_pack.add_value_store(value_store.clone());
        let entry_def = schema::Schema::<&str, &str>::new(
            schema::CommonProperties::new(vec![
                schema::Property::new_array(0, value_store, "V0"),
                schema::Property::new_content_address("V1"),
            ]),
            vec![],
            None,
        );
        let mut entry_store = Box::new(creator::EntryStore::new(entry_def, None));
        for idx in 0..self.nb {
            entry_store.add_entry(creator::BasicEntry::new_from_schema(
                &entry_store.schema,
                None,
                HashMap::from([
                    ("V0", jbk::Value::Array(format!("e{idx}").into_bytes().into())),
                    (
                        "V1",
                        jbk::Value::Content(jbk::ContentAddress::new(1.into(), (idx as u32).into())),
                    ),
                ]),
            ));
        }
        let id = directory_pack.add_entry_store(entry_store);
        directory_pack.create_index(
            "main",
            Default::default(),
            0.into(),
            id,
            (self.nb as u32).into(),
            jbk::EntryIdx::from(0).into(),
        );
    }
}

fn basic(fx: &Fixture, name: &str, mode: creator::ConcatMode, comp: creator::Compression) -> PathBuf {
    let out = fx.root.join(name);
    let mut c = creator::BasicCreator::new(utf8(&out), mode, VENDOR, comp, Arc::new(())).unwrap();
    for idx in 0..3 {
        c.add_content(
            Box::new(std::io::Cursor::new(content_text(1, idx))),
            Default::default(),
        )
        .unwrap();
    }
    c.finalize(Box::new(Store { nb: 3 }), vec![]).unwrap();
    out
}

fn compressions() -> Vec<creator::Compression> {
    vec![
        creator::Compression::None,
        #[cfg(feature = "zstd")]
        creator::Compression::zstd(),
        #[cfg(feature = "lz4")]
        creator::Compression::lz4(),
        #[cfg(feature = "lzma")]
        creator::Compression::lzma(),
    ]
}

#[test]
fn h06_basic_creator_every_packaging_and_compression() {
    let fx = fixture();
    let mut n = 0;
    for comp in compressions() {
        for mode in [
            creator::ConcatMode::OneFile,
            creator::ConcatMode::TwoFiles,
            creator::ConcatMode::NoConcat,
        ] {
            n += 1;
            let sub = fx.root.join(format!("s{n}"));
            std::fs::create_dir(&sub).unwrap();
            let fxs = Fixture { _dir: tempfile::tempdir().unwrap(), root: sub };
            let path = basic(&fxs, "arch.jbk", mode, comp);
            let expected: Vec<Vec<u8>> = (0..3).map(|i| content_text(1, i)).collect();
            assert_eq!(read_all_contents(&path), expected);
            let s = snapshot(&path);
            for info in &s.infos {
                let orig = info.pack_location.to_string();
                for loc in [ascii(213), "日本".repeat(30), String::new(), orig.clone()] {
                    rewrite_and_verify(&path, info.uuid, &loc, &format!("mode#{n} {:?} {}", info.pack_kind, loc.len()));
                }
                // back to the original location : the container is still fully readable
                assert_eq!(location_of(&snapshot(&path), info.uuid), orig);
            }
            assert_eq!(read_all_contents(&path), expected);
        }
    }
}

#[test]
fn h07_relocation_is_what_the_reader_uses() {
    let fx = fixture();
    let path = basic(&fx, "arch.jbk", creator::ConcatMode::TwoFiles, creator::Compression::None);
    let expected: Vec<Vec<u8>> = (0..3).map(|i| content_text(1, i)).collect();
    let s = snapshot(&path);
    let content_info = s.infos.iter().find(|i| i.pack_id == 1.into()).unwrap().clone();
    let old = fx.root.join(content_info.pack_location.as_str());
    assert!(old.is_file(), "{old:?}");
    std::fs::create_dir(fx.root.join("sub dir é")).unwrap();
    let new_rel = "sub dir é/moved content ü.jbkc";
    std::fs::rename(&old, fx.root.join(new_rel)).unwrap();
    // The pack is missing now
    {
        let c = jbk::reader::Container::new(&path).unwrap();
        let r = c.get_bytes(jbk::ContentAddress::new(1.into(), 0.into())).unwrap().unwrap();
        assert!(matches!(r, jbk::reader::MayMissPack::MISSING(_)));
    }
    rewrite_and_verify(&path, content_info.uuid, new_rel, "relocate");
    assert_eq!(read_all_contents(&path), expected);
    // And absolute
    let abs = fx.root.join(new_rel);
    rewrite_and_verify(&path, content_info.uuid, abs.to_str().unwrap(), "relocate abs");
    assert_eq!(read_all_contents(&path), expected);
}

// ---------------------------------------------------------------------------------------------
// H8: many packs : more than 255 pack infos, manifest bigger than 64KiB, first/last/boundary
// ---------------------------------------------------------------------------------------------
#[test]
fn h08_many_packs() {
    let fx = fixture();
    let nb = 300;
    let (manifest, uuids) = standalone_set(&fx, nb, true);
    assert_eq!(snapshot(&manifest).infos.len(), nb + 1);
    assert!(std::fs::metadata(&manifest).unwrap().len() > 65536);
    for idx in [0usize, 1, 2, 127, 128, 254, 255, 256, 257, 299, 300] {
        for loc in [ascii(213), String::new(), "€".repeat(71)] {
            rewrite_and_verify(&manifest, uuids[idx], &loc, &format!("pack #{idx} len {}", loc.len()));
        }
    }
    // all of them at once, each with its own string
    for (idx, u) in uuids.iter().enumerate() {
        let r = jbk::tools::set_location(&manifest, *u, format!("loc-{idx}-{}", ascii(idx % 200)).as_str().into()).unwrap();
        assert!(r.is_some());
    }
    let s = snapshot(&manifest);
    assert!(s.check);
    for (idx, u) in uuids.iter().enumerate() {
        assert_eq!(location_of(&s, *u), format!("loc-{idx}-{}", ascii(idx % 200)));
    }
}

// ---------------------------------------------------------------------------------------------
// H9: free data of packs (manifest value store sits just before the pack infos)
// ---------------------------------------------------------------------------------------------
#[test]
fn h09_pack_free_data_untouched() {
    let fx = fixture();
    let (manifest, uuids) = standalone_set(&fx, 3, true);
    let s = snapshot(&manifest);
    assert_eq!(s.free_datas[0].as_deref(), Some(b"directory free data".as_slice()));
    assert_eq!(s.free_datas[1].as_deref(), Some(b"free data of content pack 0".as_slice()));
    assert_eq!(s.free_datas[2].as_deref(), Some(b"".as_slice()));
    for u in &uuids {
        rewrite_and_verify(&manifest, *u, &ascii(213), "free data");
        rewrite_and_verify(&manifest, *u, "", "free data");
    }
    assert_eq!(snapshot(&manifest).free_datas, s.free_datas);
}

// ---------------------------------------------------------------------------------------------
// H10: file made by tools::concat
// ---------------------------------------------------------------------------------------------
#[test]
fn h10_concat_then_rewrite() {
    let fx = fixture();
    let path = basic(&fx, "arch.jbk", creator::ConcatMode::NoConcat, creator::Compression::None);
    let s = snapshot(&path);
    let mut files = vec![path.clone()];
    for i in &s.infos {
        files.push(fx.root.join(i.pack_location.as_str()));
    }
    let out = fx.root.join("all.jbk");
    jbk::tools::concat(&files, utf8(&out)).unwrap();
    let expected: Vec<Vec<u8>> = (0..3).map(|i| content_text(1, i)).collect();
    for i in &s.infos {
        std::fs::remove_file(fx.root.join(i.pack_location.as_str())).unwrap();
    }
    assert_eq!(read_all_contents(&out), expected);
    for i in &s.infos {
        for loc in [ascii(213), String::new(), "ü".repeat(3)] {
            rewrite_and_verify(&out, i.uuid, &loc, "concat");
        }
    }
    assert_eq!(read_all_contents(&out), expected);
}

// ---------------------------------------------------------------------------------------------
// H11: rewriting with the very same string is a no-op on the bytes
// ---------------------------------------------------------------------------------------------
#[test]
fn h11_same_location_is_identity() {
    let fx = fixture();
    let (manifest, uuids) = standalone_set(&fx, 2, false);
    for u in &uuids {
        let loc = location_of(&snapshot(&manifest), *u);
        let before = std::fs::read(&manifest).unwrap();
        rewrite_and_verify(&manifest, *u, &loc, "same");
        assert_eq!(before, std::fs::read(&manifest).unwrap());
    }
}

// ---------------------------------------------------------------------------------------------
// H12: alternatives : several packs sharing the same pack id (allowed by spec/manifest.rst)
// ---------------------------------------------------------------------------------------------
#[test]
fn h12_alternative_packs_same_id() {
    let fx = fixture();
    let dir = make_directory_pack(&fx.root.join("d"), 3);
    let a = make_content_pack(&fx.root.join("a"), 1, 3, creator::Compression::None);
    let b = make_content_pack(&fx.root.join("b"), 1, 3, creator::Compression::None);
    let c = make_content_pack(&fx.root.join("c"), 1, 3, creator::Compression::None);
    let uuids = [dir.uuid, a.uuid, b.uuid, c.uuid];
    let manifest = fx.root.join("m.jbkm");
    make_manifest(
        &manifest,
        vec![
            (dir, "d".into()),
            (a, "a".into()),
            (b, "a".into()),
            (c, "".into()),
        ],
    );
    for u in uuids.iter().rev() {
        rewrite_and_verify(&manifest, *u, &ascii(213), "alt");
        rewrite_and_verify(&manifest, *u, "a", "alt");
    }
}

// ---------------------------------------------------------------------------------------------
// H13: a Jubako file appended to something else (found by its tail header by the readers)
// ---------------------------------------------------------------------------------------------
fn prefixed_copy(src: &Path, dst: &Path, prefix_len: usize) {
    let mut out = std::fs::File::create(dst).unwrap();
    let mut rng = Lcg(77);
    let prefix: Vec<u8> = (0..prefix_len).map(|_| rng.next() as u8).collect();
    out.write_all(&prefix).unwrap();
    out.write_all(&std::fs::read(src).unwrap()).unwrap();
}

#[test]
fn h13_container_appended_to_a_prefix() {
    let fx = fixture();
    let path = basic(&fx, "arch.jbk", creator::ConcatMode::OneFile, creator::Compression::None);
    let expected: Vec<Vec<u8>> = (0..3).map(|i| content_text(1, i)).collect();
    let pre = fx.root.join("selfextract.bin");
    prefixed_copy(&path, &pre, 12345);
    // The readers open it
    assert_eq!(read_all_contents(&pre), expected);
    let uuid = {
        let c = jbk::reader::Container::new(&pre).unwrap();
        c.get_pack(1.into()).unwrap().unwrap().unwrap().uuid()
    };
    let before = std::fs::read(&pre).unwrap();
    let r = jbk::tools::set_location(&pre, uuid, "elsewhere.jbkc".into());
    match r {
        Ok(Some(_)) => {
            let after = std::fs::read(&pre).unwrap();
            assert_diff_confined(&before, &after, uuid, "prefixed");
            assert_eq!(read_all_contents(&pre), expected);
        }
        other => {
            // Nothing must have been written at least
            assert_eq!(before, std::fs::read(&pre).unwrap(), "file changed on failure");
            panic!("a file that Container::new opens cannot have its locations rewritten: {other:?}");
        }
    }
}

// ---------------------------------------------------------------------------------------------
// H14: a container holding two manifests (what `concat a.jbk b.jbk` produces)
// ---------------------------------------------------------------------------------------------
#[test]
fn h14_container_with_two_manifests() {
    let fx = fixture();
    let sub_a = Fixture { _dir: tempfile::tempdir().unwrap(), root: fx.root.join("a") };
    let sub_b = Fixture { _dir: tempfile::tempdir().unwrap(), root: fx.root.join("b") };
    std::fs::create_dir(&sub_a.root).unwrap();
    std::fs::create_dir(&sub_b.root).unwrap();
    let a = basic(&sub_a, "a.jbk", creator::ConcatMode::OneFile, creator::Compression::None);
    let b = basic(&sub_b, "b.jbk", creator::ConcatMode::OneFile, creator::Compression::None);
    let ua = snapshot(&a).infos[1].uuid;
    let ub = snapshot(&b).infos[1].uuid;
    let out = fx.root.join("both.jbk");
    jbk::tools::concat(&[&a, &b], utf8(&out)).unwrap();
    // Both packs are listed in a manifest of the file : both must be rewritable, every time.
    let mut failures = vec![];
    for round in 0..16 {
        for (name, u) in [("a", ua), ("b", ub)] {
            let loc = format!("round{round}{name}");
            match jbk::tools::set_location(&out, u, loc.as_str().into()).unwrap() {
                Some(_) => {}
                None => failures.push(format!("round {round}: pack of manifest {name} reported as not in the manifest")),
            }
        }
    }
    assert!(failures.is_empty(), "{} failures out of 32:\n{}", failures.len(), failures.join("\n"));
}

// ---------------------------------------------------------------------------------------------
// H15: not admissible strings (214..) must at least leave the file as it was.
// ---------------------------------------------------------------------------------------------
#[test]
fn h15_too_long_location_leaves_file_untouched() {
    let fx = fixture();
    let (manifest, uuids) = standalone_set(&fx, 2, false);
    let before = std::fs::read(&manifest).unwrap();
    for len in [214usize, 217, 255, 256, 300, 70000] {
        let m = manifest.clone();
        let u = uuids[1];
        let loc = ascii(len);
        let r = std::panic::catch_unwind(move || jbk::tools::set_location(&m, u, loc.as_str().into()));
        if let Ok(Ok(Some(_))) = r {
            // accepted : then it must be read back and valid
            let s = snapshot(&manifest);
            assert!(s.check);
            assert_eq!(location_of(&s, u), ascii(len));
        } else {
            assert_eq!(before, std::fs::read(&manifest).unwrap(), "len {len}");
        }
    }
    assert!(snapshot(&manifest).check);
}

// ---------------------------------------------------------------------------------------------
// H16: the manifest written at a non zero position of a plain file then wrapped by hand is out of
// the public API; but a manifest *file* can also be given through a path with `..` or a symlink.
// ---------------------------------------------------------------------------------------------
#[test]
fn h16_through_symlink_and_dotted_path() {
    let fx = fixture();
    let (manifest, uuids) = standalone_set(&fx, 2, false);
    std::fs::create_dir(fx.root.join("x")).unwrap();
    let dotted = fx.root.join("x").join("..").join("m.jbkm");
    rewrite_and_verify(&dotted, uuids[2], &ascii(100), "dotted");
    #[cfg(unix)]
    {
        let link = fx.root.join("link.jbkm");
        std::os::unix::fs::symlink(&manifest, &link).unwrap();
        rewrite_and_verify(&link, uuids[1], &ascii(213), "symlink");
        assert!(!std::fs::symlink_metadata(&link).unwrap().file_type().is_file() || true);
        assert_eq!(location_of(&snapshot(&manifest), uuids[1]), ascii(213));
        assert!(std::fs::symlink_metadata(&link).unwrap().file_type().is_symlink());
    }
}

// ---------------------------------------------------------------------------------------------
// H17: hard link / other open readers see a valid manifest at every step (no truncation of file)
// ---------------------------------------------------------------------------------------------
#[test]
fn h17_reader_opened_before_rewrite_still_valid_after() {
    let fx = fixture();
    let (manifest, uuids) = standalone_set(&fx, 2, false);
    // a reader opened before (not loaded in memory : tools::open_pack is lazy)
    let container = jbk::tools::open_pack(&manifest).unwrap();
    rewrite_and_verify(&manifest, uuids[1], &ascii(213), "live");
    let reader = container.get_manifest_pack_reader().unwrap().unwrap();
    let m = ManifestPack::new(reader).unwrap();
    assert!(m.check().unwrap());
    assert_eq!(
        m.get_content_pack_info_uuid(uuids[1]).unwrap().pack_location.as_str(),
        ascii(213)
    );
    // size of file did not change, tail header still the mirror of the header
    let mut f = std::fs::File::open(&manifest).unwrap();
    let mut head = [0u8; 64];
    f.read_exact(&mut head).unwrap();
    f.seek(std::io::SeekFrom::End(-64)).unwrap();
    let mut tail = [0u8; 64];
    f.read_exact(&mut tail).unwrap();
    tail.reverse();
    assert_eq!(head, tail);
}

// ---------------------------------------------------------------------------------------------
// H18: the biggest manifest : 65535 pack infos (16 MiB of pack infos)
// ---------------------------------------------------------------------------------------------
#[test]
fn h18_max_pack_count() {
    let fx = fixture();
    let dir = make_directory_pack(&fx.root.join("d"), 1);
    let model = make_content_pack(&fx.root.join("c"), 1, 1, creator::Compression::None);
    let mut uuids = vec![dir.uuid];
    let mut packs = vec![(dir, "d".to_string())];
    for i in 0..65534u32 {
        // PackData has only public fields : an application can describe packs it did not create itself.
        let data = creator::PackData {
            uuid: Uuid::from_u128(0xC12_0000_0000_0000_0000_0000_0000_0000_u128 + i as u128),
            pack_size: model.pack_size,
            pack_kind: model.pack_kind,
            pack_id: jbk::PackId::from((i % 65535 + 1) as u16),
            free_data: if i % 1000 == 0 { vec![i as u8; 3] } else { vec![] },
            check_info: model.check_info,
        };
        uuids.push(data.uuid);
        packs.push((data, if i % 2 == 0 { String::new() } else { format!("p{i}") }));
    }
    let manifest = fx.root.join("m.jbkm");
    make_manifest(&manifest, packs);
    let s = snapshot(&manifest);
    assert_eq!(s.pack_count, 65535);
    assert_eq!(s.infos.len(), 65535);
    for idx in [0usize, 1, 255, 256, 32767, 32768, 65533, 65534] {
        rewrite_and_verify(&manifest, uuids[idx], &"€".repeat(71), &format!("pack #{idx}"));
    }
    rewrite_and_verify(&manifest, uuids[65534], "", "last, empty");
    assert_eq!(jbk::tools::set_location(&manifest, Uuid::new_v4(), "x".into()).unwrap(), None);
}

// ---------------------------------------------------------------------------------------------
// H19: the `jbk locate` command (only when the binary is built : `--features build_bin`)
// ---------------------------------------------------------------------------------------------
#[test]
fn h19_cli_locate() {
    let Some(jbk_bin) = option_env!("CARGO_BIN_EXE_jbk") else {
        eprintln!("jbk binary not built (needs --features build_bin) : skipped");
        return;
    };
    let fx = fixture();
    let (manifest, uuids) = standalone_set(&fx, 2, true);
    let run = |args: &[&str]| {
        let out = std::process::Command::new(jbk_bin)
            .arg("locate")
            .arg(&manifest)
            .args(args)
            .output()
            .unwrap();
        (
            out.status.success(),
            String::from_utf8_lossy(&out.stdout).to_string(),
            String::from_utf8_lossy(&out.stderr).to_string(),
        )
    };
    for (n, u) in uuids.iter().enumerate() {
        for loc in [ascii(213), "é".repeat(106), "a b/c".to_string(), ascii(1), String::new()] {
            let before_bytes = std::fs::read(&manifest).unwrap();
            let before = snapshot(&manifest);
            let (ok, stdout, stderr) = run(&[&u.to_string(), &loc]);
            assert!(ok, "{stderr}");
            assert!(stdout.contains("Change"), "pack {n} loc {loc:?}: {stdout} {stderr}");
            let after = snapshot(&manifest);
            assert_diff_confined(&before_bytes, &std::fs::read(&manifest).unwrap(), *u, "cli");
            assert!(after.check);
            assert_eq!(location_of(&after, *u), loc);
            for (b, a) in before.infos.iter().zip(after.infos.iter()) {
                if b.uuid != *u {
                    assert_eq!(b, a);
                }
            }
            // read back by the command itself (the command lists content packs only)
            if n != 0 {
                let (_, stdout, stderr) = run(&[&u.to_string()]);
                assert!(stdout.contains(&format!("`{loc}`")), "{stdout} {stderr}");
            }
        }
    }
    // unknown uuid
    let before_bytes = std::fs::read(&manifest).unwrap();
    let (_, stdout, stderr) = run(&[&Uuid::new_v4().to_string(), "foo"]);
    assert!(stderr.contains("is not in the manifest"), "{stdout} {stderr}");
    assert_eq!(before_bytes, std::fs::read(&manifest).unwrap());
    // not a uuid
    let (_, _, stderr) = run(&["not-a-uuid", "foo"]);
    assert!(stderr.contains("is not a valid uuid"), "{stderr}");
    assert_eq!(before_bytes, std::fs::read(&manifest).unwrap());
    // too long (not admissible) : whatever the command says, nothing must be broken.
    for len in [214usize, 217, 218, 300] {
        let _ = run(&[&uuids[1].to_string(), &ascii(len)]);
        assert_eq!(before_bytes, std::fs::read(&manifest).unwrap(), "len {len}");
    }
}

// ---------------------------------------------------------------------------------------------
// H20: concurrent rewrites of DIFFERENT packs of the same manifest (each call touches its own
// 256 bytes block only).
//  a) whatever the calls answer, the final state is valid and holds the last location of each pack
//  b) no call fails because an *other* pack is being rewritten
// ---------------------------------------------------------------------------------------------
fn concurrent_different_packs(retry: bool) -> (Vec<String>, PathBuf, Vec<Uuid>, Fixture, usize) {
    let fx = fixture();
    let (manifest, uuids) = standalone_set(&fx, 7, false);
    let rounds = 150;
    let errors = std::sync::Mutex::new(vec![]);
    std::thread::scope(|s| {
        for (t, u) in uuids.iter().enumerate() {
            let manifest = manifest.clone();
            let errors = &errors;
            s.spawn(move || {
                for r in 0..rounds {
                    let loc = format!("t{t}r{r}{}", ascii((t * 31 + r * 7) % 200));
                    loop {
                        match jbk::tools::set_location(&manifest, *u, loc.as_str().into()) {
                            Ok(Some(_)) => break,
                            Ok(None) => {
                                errors.lock().unwrap().push(format!("thread {t} round {r}: not found"));
                            }
                            Err(e) => {
                                let msg = format!("{e}");
                                let msg: String = msg.chars().take(60).collect();
                                errors.lock().unwrap().push(format!("thread {t} round {r}: Err {msg}"));
                            }
                        }
                        if !retry {
                            break;
                        }
                    }
                }
            });
        }
    });
    (errors.into_inner().unwrap(), manifest, uuids, fx, rounds)
}

#[test]
fn h20a_concurrent_rewrites_of_different_packs_final_state() {
    let (_errors, manifest, uuids, _fx, rounds) = concurrent_different_packs(true);
    let s = snapshot(&manifest);
    assert!(s.check);
    for (t, u) in uuids.iter().enumerate() {
        let r = rounds - 1;
        assert_eq!(
            location_of(&s, *u),
            format!("t{t}r{r}{}", ascii((t * 31 + r * 7) % 200))
        );
    }
}

#[test]
fn h20b_concurrent_rewrites_of_different_packs_no_spurious_failure() {
    let (errors, manifest, _uuids, _fx, _rounds) = concurrent_different_packs(false);
    assert!(snapshot(&manifest).check);
    assert!(
        errors.is_empty(),
        "{} rewrites failed only because an other pack was being rewritten at the same time, first ones:\n{}",
        errors.len(),
        errors.iter().take(5).cloned().collect::<Vec<_>>().join("\n")
    );
}

// ---------------------------------------------------------------------------------------------
// H21: two rewrites of the SAME pack started at the same time : one of the two must win, whole.
// ---------------------------------------------------------------------------------------------
#[test]
fn h21_concurrent_rewrites_of_the_same_pack() {
    let fx = fixture();
    let (manifest, uuids) = standalone_set(&fx, 1, false);
    let u = uuids[1];
    let mut torn = vec![];
    for round in 0..1500 {
        let a = format!("A{round}{}", "a".repeat(150));
        let b = format!("B{round}{}", "b".repeat(40));
        let barrier = std::sync::Barrier::new(2);
        std::thread::scope(|s| {
            for loc in [&a, &b] {
                let manifest = &manifest;
                let barrier = &barrier;
                s.spawn(move || {
                    barrier.wait();
                    // The old location read by the looser may already be torn : only look at the file after.
                    let _ = jbk::tools::set_location(manifest, u, loc.as_str().into());
                });
            }
        });
        let opened = std::panic::catch_unwind(|| snapshot(&manifest));
        match opened {
            Ok(s) => {
                let l = location_of(&s, u);
                assert!(s.check);
                assert!(l == a || l == b, "round {round}: read back {l:?}");
            }
            Err(_) => {
                torn.push(round);
                // repair to go on : impossible through the API (the block does not parse any more)
                break;
            }
        }
    }
    assert!(torn.is_empty(), "manifest does not open any more after concurrent rewrites of one pack (round {torn:?})");
}

// ---------------------------------------------------------------------------------------------
// H22: extreme values in the 38 first bytes of the pack info (they are parsed and written again
// by the rewrite : the round trip must be the identity or the global check breaks)
// ---------------------------------------------------------------------------------------------
#[test]
fn h22_extreme_pack_info_fields_round_trip() {
    let fx = fixture();
    let dir = make_directory_pack(&fx.root.join("d"), 1);
    let model = make_content_pack(&fx.root.join("c"), 1, 1, creator::Compression::None);
    let mut uuids = vec![dir.uuid];
    let mut packs = vec![(dir, "d".to_string())];
    let sizes = [
        0u64,
        1,
        0xFFFF,
        0x1_0000,
        0xFF_FFFF,
        0xFFFF_FFFF,
        0x1_0000_0000,
        0xFFFF_FFFF_FFFF,
        0x1_0000_0000_0000,
        0x7FFF_FFFF_FFFF_FFFF,
        0x8000_0000_0000_0000,
        u64::MAX,
    ];
    let ids = [0u16, 1, 255, 256, 32767, 32768, 65534, 65535];
    let uuid_list = [
        Uuid::nil(),
        Uuid::max(),
        Uuid::from_u128(1),
        Uuid::from_u128(0x0102_0304_0506_0708_090a_0b0c_0d0e_0f10),
    ];
    let mut n = 0u128;
    for (i, size) in sizes.iter().enumerate() {
        let uuid = if i < uuid_list.len() {
            uuid_list[i]
        } else {
            n += 1;
            Uuid::from_u128(0xAB00 + n)
        };
        let data = creator::PackData {
            uuid,
            pack_size: jbk::Size::new(*size),
            pack_kind: model.pack_kind,
            pack_id: jbk::PackId::from(ids[i % ids.len()]),
            // free data bigger than what a u8 length can hold, and not utf8
            free_data: vec![0xFF; i * 100],
            check_info: model.check_info,
        };
        uuids.push(uuid);
        packs.push((data, "é".repeat(i)));
    }
    let manifest = fx.root.join("m.jbkm");
    make_manifest(&manifest, packs);
    for u in &uuids {
        for loc in [ascii(213), String::new(), "日".repeat(71)] {
            rewrite_and_verify(&manifest, *u, &loc, &format!("{u}"));
        }
    }
    // a pack whose uuid is nil or max can be named, and only it changes
    let s = snapshot(&manifest);
    assert_eq!(location_of(&s, Uuid::nil()), "日".repeat(71));
    assert_eq!(location_of(&s, Uuid::max()), "日".repeat(71));
}
