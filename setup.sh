#!/bin/sh
# Build the jbkfacts driver offline (nightly toolchain with rustc-dev is pre-installed) and warm
# the dependency cache of the analysed configurations. Everything is rebuilt from files on disk.
set -e
cd "$(dirname "$0")"
export CARGO_NET_OFFLINE=true
(cd engine/jbkfacts && cargo +nightly build --release --offline 2>&1 | tail -2)
python3 rules/extract.py lib-all3
python3 rules/witness.py > /dev/null
echo "setup done"
