#!/usr/bin/env python3
"""gen_seed_tasks.py <suffix> <outdir>: write one TASK file per claimed property for an independent sub-agent that is
to produce a realistic breaking change (it is given the property text and the list of earlier changes, nothing of /verif)."""
import json, os, re, glob, sys
suffix, outdir = sys.argv[1], sys.argv[2]
props = {}
for l in open('/verif/properties.jsonl'):
    d = json.loads(l); props[d['id']] = d
used = {}
for m in glob.glob('/verif/seeded/*/meta.json'):
    meta = json.load(open(m)); pid = meta['property']
    patch = open(os.path.dirname(m) + '/patch.diff').read()
    fns = set()
    for mm in re.finditer(r"^@@ .* @@ (.*)$", patch, re.M):
        fns.add(mm.group(1).strip()[:70])
    files = set(re.findall(r"^\+\+\+ b/(\S+)", patch, re.M))
    used.setdefault(pid, []).append((sorted(files), sorted(fns), (meta.get('summary') or '')[:140].replace("\n", " ")))
claimed = open('/verif/rules/CLAIMED').read().split()
os.makedirs(outdir, exist_ok=True)
for pid in claimed:
    p = props[pid]; wid = pid + suffix
    prev = "\n".join("- files %s; near `%s`; %s" % (", ".join(f), "`, `".join(fn) or "?", s) for f, fn, s in used.get(pid, []))
    text = f"""You are working in a scratch git worktree of the Rust crate `jubako` (reference implementation of the Jubako container format) at /tmp/wt/{wid}. Work ONLY inside /tmp/wt/{wid}. There is no network: always use `cargo ... --offline`. NEVER use `git stash` (it is shared between worktrees): to test without your change use `git diff -- src > /tmp/wt/{wid}/p.diff && git checkout -- src`, then `git apply /tmp/wt/{wid}/p.diff` to restore it.

Here is a semantic property that users of this library rely on:

  id: {pid}
  title: {p['title']}
  statement: {p['statement']}
  quantified over: {p['quantifier']['text']}
  why the unit tests cannot settle it: {p['why_tests_cant']}
  code it is anchored in: {", ".join(p['anchors']['files'])}
  mechanisms: {"; ".join(m['name']+' ('+m['where']+')' for m in p['anchors']['mechanism'])}

Task: make ONE realistic change to the library source (under src/) that BREAKS this property while going unnoticed:
  * it must look like something a developer could plausibly commit (an optimisation, a clean-up or refactoring gone subtly wrong, an off-by-one, a forgotten case, a wrong order of operations, a too-eager early exit, a cache, a wrong width, a changed default, a new fast path, ...), not sabotage;
  * the crate still builds: `cargo build --offline` and `cargo build --offline --features all`;
  * the existing test suite, UNEDITED, still passes: `cargo test --workspace --no-fail-fast --offline`;
  * the property is broken only under something specific (a particular shape or size of input, a particular packaging, a schedule, a failure point, a sequence of calls): say precisely what;
  * you demonstrate it: add a NEW integration test file `tests/demo_{wid.lower()}.rs` (using only the public API of the crate and std/tempfile) that FAILS with your change and PASSES without it. The demonstration must be deterministic if at all possible (if it depends on a thread schedule, say how often it fails).

Earlier changes already exist for this property; yours must be in a DIFFERENT function and use a DIFFERENT mechanism than ALL of these (look for a part of the code they did not touch):
{prev or '- (none)'}

Deliverables, in /tmp/wt/{wid}/SEED/ :
  * patch.diff  = `git diff -- src`
  * demo.rs     = a copy of tests/demo_{wid.lower()}.rs
  * meta.json   = {{"property": "{pid}", "summary": "<what was changed, where, and why it breaks the property>", "needs_to_manifest": "<exactly what is needed for the breakage to show>", "files_changed": ["src/..."]}}
Leave the worktree with the change applied and the demo test present; `git diff -- src` must contain only your change and equal SEED/patch.diff. In your final answer, summarise the change, what triggers it, and the three verification results (demo with change, demo without, existing suite with change).
"""
    open(os.path.join(outdir, wid + '.md'), 'w').write(text)
print("ok", len(claimed))
