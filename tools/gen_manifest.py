#!/usr/bin/env python3
"""Regenerate /verif/MANIFEST.json from the rule modules (rules/CLAIMED lists the claimed ids)."""
import importlib, json, os, sys
VERIF = os.path.dirname(os.path.dirname(os.path.abspath(__file__)))
sys.path.insert(0, os.path.join(VERIF, "rules"))
os.environ["JBK_NO_EXTRACT"] = "1"
props = [json.loads(l) for l in open(os.path.join(VERIF, "properties.jsonl"))]
claimed = [l.strip() for l in open(os.path.join(VERIF, "rules", "CLAIMED")).read().split() if l.strip()]
NA = json.load(open(os.path.join(VERIF, "tools", "not_applicable.json")))
checks = []
for pid in claimed:
    m = importlib.import_module(pid.lower())
    checks.append({
        "property_id": pid,
        "quick_cmd": "./vcheck %s --tier quick" % pid,
        "thorough_cmd": "./vcheck %s --tier thorough" % pid,
        "evidence_file": "evidence/%s.json" % pid,
        "replay_cmd_template": "./vcheck replay {path}",
        "engine": "jbkfacts+rules",
        "level_claimed": {"category": "other", "text": m.EXPLANATION, "design_ref": "DESIGN.md §4 %s" % pid},
        "level_note": "; ".join(m.ASSUMPTIONS) + ". Decides the named structural (necessary) clauses only, not the runtime behaviour itself.",
        "technique": getattr(m, "TECHNIQUE", "static analysis: custom rustc_private driver (type-checked HIR + MIR facts, polymorphic instance call graph) + rule engine (dominance / must-pass-through, provenance slices, who-may-call, sibling cross-check, layout extraction vs frozen format table)"),
    })
na = [{"property_id": p["id"], "reason": NA.get(p["id"], "check not built yet (work in progress; see DESIGN.md)")} for p in props if p["id"] not in claimed]
man = {
    "version": 1,
    "setup_cmd": "./setup.sh",
    "hooks": {"guard": "jubako_verif", "enable": "none: static analysis reads the source, no instrumentation is compiled in", 
              "baseline_off_cmd": "cd /repo && cargo test --workspace --no-fail-fast --offline", "source_commits": [], "add_only": True},
    "engines": [
        {"name": "jbkfacts", "path": "engine/jbkfacts", "serves_properties": claimed, "kind_free_text": "rustc_private driver (nightly) run as RUSTC_WORKSPACE_WRAPPER under cargo check: dumps MIR, HIR call trees, polymorphic instance call graph, constants, impl tables of the jubako crate as JSON"},
        {"name": "rules", "path": "rules", "serves_properties": claimed, "kind_free_text": "python3 (stdlib) rule engine over the facts: CFG dominance/reachability, provenance slices, layout extraction, stream-event order, sibling matrices; known_findings.json; evidence writer"},
        {"name": "format-reference", "path": "format/reference_v0_2.json", "serves_properties": [p for p in claimed if p in ("C01", "C02", "C04", "C05", "C12", "C14")], "kind_free_text": "frozen v0.2 on-disk format table (oracle for layout/tag/constant agreement)"},
    ],
    "checks": checks,
    "not_applicable": na,
    "notes": "Technique family: static analysis only. Every check analyses /repo's current working tree (facts are cached by content hash of src/, Cargo.toml, Cargo.lock). `./vcheck selftest` tests the rules both ways on seeded mutants (analysed, never executed).",
}
json.dump(man, open(os.path.join(VERIF, "MANIFEST.json"), "w"), indent=1)
print("claimed:", claimed, "n/a:", [x["property_id"] for x in na])
