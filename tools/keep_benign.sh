#!/bin/bash
# keep_benign.sh <worktree-id>: copy the behaviour-preserving patches of a worktree into /verif/benign/
W=$1
for f in /tmp/wt/$W/BENIGN/*.diff; do k=$(basename $f .diff); cp $f /verif/benign/$W-$k.diff; done
cp /tmp/wt/$W/BENIGN/notes.json /verif/benign/$W.notes.json
