#!/usr/bin/env python3
"""try_patch.py <patch> <property> [rule]: analyse a scratch copy of /repo with the patch applied, print the violations in full"""
import sys, os, shutil
sys.path.insert(0, os.path.join(os.path.dirname(os.path.dirname(os.path.abspath(__file__))), "rules"))
import selftest, engine
d = selftest.scratch_copy()
try:
    selftest.apply_patch(d, os.path.abspath(sys.argv[1]))
    new, known, obs = engine.run_property(sys.argv[2], "quick", quiet=True, repo=d, write_evidence=False, only_rule=(sys.argv[3] if len(sys.argv) > 3 else None))
    for o in new:
        print("XX", o.rule, o.key, o.where, "\n    ", o.msg)
    print(len(new), "violations")
    if os.environ.get("KEEP"):
        print("kept", d); d = None
finally:
    if d: shutil.rmtree(d, ignore_errors=True)
