#!/usr/bin/env python3
"""mkmut.py: build hand-made mutant patches (one textual replacement each) against /repo and register them in
selftest/mutants.json. Edit MUT, run once. Each must compile and keep the suite green to be meaningful (checked by hand)."""
import os, shutil, subprocess, sys, json
MUT = [
 ("hand-c03-r1-check-strict", "C03", ["R1/finalize/check-compares-neighbours-non-decreasing"], "src/creator/directory_pack/entry_store.rs", ".all(|w| w[0].compare(&keys, &w[1]).is_le())", ".all(|w| w[0].compare(&keys, &w[1]).is_lt())"),
 ("hand-c03-r1-comparator-swapped", "C03", ["R1/finalize/sorted-with-compare"], "src/creator/directory_pack/entry_store.rs", "let compare = |a: &Entry, b: &Entry| a.compare(&keys, b);", "let compare = |a: &Entry, b: &Entry| b.compare(&keys, a);"),
 ("hand-c03-r1-resort-once", "C03", ["R1/finalize/unsorted-never-goes-on"], "src/creator/directory_pack/entry_store.rs", "            while !self\n                .entries", "            if !self\n                .entries"),
 ("hand-c03-r2-prefix-swapped", "C03", ["R2/Array::cmp/same-field-self-vs-other"], "src/creator/directory_pack/value.rs", "    fn cmp(&self, other: &Array) -> cmp::Ordering {\n        match self.data.cmp(&other.data) {", "    fn cmp(&self, other: &Array) -> cmp::Ordering {\n        match other.data.cmp(&self.data) {"),
 ("hand-c03-r2-greater-is-less", "C03", ["R2/ArrayS::::cmp_array/first-difference-decides"], "src/creator/directory_pack/value.rs", "        match self.data.as_slice().cmp(&other.data) {\n            cmp::Ordering::Less => cmp::Ordering::Less,\n            cmp::Ordering::Greater => cmp::Ordering::Greater,", "        match self.data.as_slice().cmp(&other.data) {\n            cmp::Ordering::Less => cmp::Ordering::Less,\n            cmp::Ordering::Greater => cmp::Ordering::Less,"),
 ("hand-c03-r3-arm-swapped", "C03", ["R3/Value.partial_cmp/self-vs-other"], "src/creator/directory_pack/value.rs", "                Value::Array0(other) => Some(v.cmp_array_s(other)),", "                Value::Array0(other) => Some(other.cmp_array(v)),"),
 ("hand-c03-r4-less-is-greater", "C03", ["R4/compare/sign-kept"], "src/creator/directory_pack/mod.rs", "                    cmp::Ordering::Less => return cmp::Ordering::Less,", "                    cmp::Ordering::Less => return cmp::Ordering::Greater,"),
 ("hand-c03-r5-left-stays-at-mid", "C03", ["R5/find/ordered/less-moves-left-beyond-mid"], "src/reader/directory_pack/range.rs", "                    left = mid + EntryCount::from(1);", "                    left = mid;"),
 ("hand-c03-r5-answers-absolute-index", "C03", ["R5/find/ordered/looks-at-offset-plus-i-answers-i"], "src/reader/directory_pack/range.rs", "                    return Ok(Some(mid));", "                    return Ok(Some(self.offset() + mid));"),
 ("hand-c03-r5-linear-skips-first", "C03", ["R5/find/linear/every-index"], "src/reader/directory_pack/range.rs", "            for idx in self.count() {", "            for idx in self.count().into_iter().skip(1) {"),
 ("hand-c03-r6-probe-prefix-is-less", "C03", ["R6/Array.cmp/probe-exhausted-first-is-greater"], "src/reader/directory_pack/raw_value.rs", "                None => return Ok(cmp::Ordering::Greater),", "                None => return Ok(cmp::Ordering::Less),"),
 ("hand-c03-r6-u8-swapped", "C03", ["R6/RawValue.partial_cmp/self-vs-other"], "src/reader/directory_pack/raw_value.rs", "            Value::Unsigned(v) => Ok(match self {\n                RawValue::U8(r) => Some((*r as u64).cmp(v)),", "            Value::Unsigned(v) => Ok(match self {\n                RawValue::U8(r) => Some(v.cmp(&(*r as u64))),"),
]
specs = json.load(open('/verif/selftest/mutants.json'))
have = {s["name"] for s in specs}
os.makedirs('/tmp/mutwork', exist_ok=True)
for name, prop, exp, rel, old, new in MUT:
    d = '/tmp/mutwork/' + name
    shutil.rmtree(d, ignore_errors=True); os.makedirs(d + '/a'); os.makedirs(d + '/b')
    for sub in ('a', 'b'):
        os.makedirs(os.path.dirname(f'{d}/{sub}/{rel}'), exist_ok=True)
        shutil.copy('/repo/' + rel, f'{d}/{sub}/{rel}')
    s = open(f'{d}/b/{rel}').read()
    if s.count(old) != 1:
        print('SKIP (pattern count %d): %s' % (s.count(old), name)); continue
    open(f'{d}/b/{rel}', 'w').write(s.replace(old, new))
    r = subprocess.run(['diff', '-u', f'a/{rel}', f'b/{rel}'], cwd=d, stdout=subprocess.PIPE, text=True)
    open(f'/verif/selftest/mutants/{name}.patch', 'w').write(r.stdout)
    if name not in have:
        specs.append({"name": name, "patch": name + ".patch", "property": prop, "expect": exp, "reverse": False})
json.dump(specs, open('/verif/selftest/mutants.json', 'w'), indent=1)
shutil.rmtree('/tmp/mutwork', ignore_errors=True)
print(len(specs), 'mutants registered')
