#!/usr/bin/env python3
"""mkmut.py: build hand-made mutant patches (one textual replacement each) against /repo and register them in
selftest/mutants.json. Edit MUT, run once. Each must compile and keep the suite green to be meaningful (checked by hand)."""
import os, shutil, subprocess, sys, json
MUT = [
 ("hand-c01-r16-bound-one-bit-too-large", "C01", ["R16/"], "src/creator/content_pack/creator.rs", "const MAX_CLUSTERS_PER_PACK: u32 = 1 << 20;", "const MAX_CLUSTERS_PER_PACK: u32 = 1 << 21;"),
 ("hand-c01-r17-rewind-only-when-sampling", "C01", ["R17/"], "src/creator/content_pack/creator.rs", "        content.rewind()?;\n        let content_size = content.size();", "        let content_size = content.size();"),
 ("hand-c02-r12-bound-32", "C02", ["R12/"], "src/creator/directory_pack/schema/property.rs", "            fixed_array_len <= 31,", "            fixed_array_len <= 32,"),
 ("hand-c02-r13-ties-less", "C02", ["R13/"], "src/creator/directory_pack/mod.rs", "        cmp::Ordering::Equal\n    }\n}", "        cmp::Ordering::Less\n    }\n}"),
 ("hand-c14-r10-value-stores-not-rebased", "C14", ["R10/FinalizedDirectoryPackCreator.write/position-of-part#2"], "src/creator/directory_pack/directory_pack.rs", "value_stores_offsets.push(in_pack(value_store.write().unwrap().write(&mut buffered)?));", "value_stores_offsets.push(value_store.write().unwrap().write(&mut buffered)?);"),
 ("hand-c14-r10-manifest-rebased-copy-unused", "C14", ["R10/ManifestPackCreator.finalize"], "src/creator/manifest_pack.rs", "        let value_store_pos = SizedOffset::new(\n            value_store_pos.size,\n            (value_store_pos.offset.into_u64() - origin_offset).into(),\n        );", "        let _relative = SizedOffset::new(\n            value_store_pos.size,\n            (value_store_pos.offset.into_u64() - origin_offset).into(),\n        );"),
]
specs = json.load(open('/verif/selftest/mutants.json'))
have = {s["name"] for s in specs}
os.makedirs('/tmp/mutwork', exist_ok=True)
for name, prop, exp, rel, old, new in MUT:
    d = '/tmp/mutwork/' + name
    shutil.rmtree(d, ignore_errors=True); os.makedirs(d + '/a'); os.makedirs(d + '/b')
    for sub in ('a', 'b'):
        os.makedirs(os.path.dirname(f'{d}/{sub}/{rel}'), exist_ok=True)
        shutil.copy('/repo/' + rel, f'{d}/{sub}/{rel}')
    s = open(f'{d}/b/{rel}').read()
    if s.count(old) != 1:
        print('SKIP (pattern count %d): %s' % (s.count(old), name)); continue
    open(f'{d}/b/{rel}', 'w').write(s.replace(old, new))
    r = subprocess.run(['diff', '-u', f'a/{rel}', f'b/{rel}'], cwd=d, stdout=subprocess.PIPE, text=True)
    open(f'/verif/selftest/mutants/{name}.patch', 'w').write(r.stdout)
    if name not in have:
        specs.append({"name": name, "patch": name + ".patch", "property": prop, "expect": exp, "reverse": False})
json.dump(specs, open('/verif/selftest/mutants.json', 'w'), indent=1)
shutil.rmtree('/tmp/mutwork', ignore_errors=True)
print(len(specs), 'mutants registered')
