#!/usr/bin/env python3
"""mkmut.py: build hand-made mutant patches (one textual replacement each) against /repo and register them in
selftest/mutants.json. Edit MUT, run once. Each must compile and keep the suite green to be meaningful (checked by hand)."""
import os, shutil, subprocess, sys, json
MUT = [
 ("hand-c03-r12-length-of-the-inline-part", "C03", ["R12/ValueTransformer.next/inline-part-id-and-whole-length"], "src/creator/directory_pack/mod.rs", "                            let size = data.len();\n                            let (data, to_store) =\n                                data.split_at(cmp::min(*fixed_array_len, data.len()));", "                            let (data, to_store) =\n                                data.split_at(cmp::min(*fixed_array_len, data.len()));\n                            let size = data.len();"),
 ("hand-c03-r12-inline-part-stored-again", "C03", ["R12/ValueTransformer.next/stored-part-is-what-follows-the-cut"], "src/creator/directory_pack/mod.rs", "                            let value_id = store_handle.add_value(to_store);", "                            let _ = to_store;\n                            let value_id = store_handle.add_value(data);"),
 ("hand-c03-r12-cut-capped-by-a-constant", "C03", ["R12/ValueTransformer.next/cut-at-min-of-inline-length-and-length"], "src/creator/directory_pack/mod.rs", "data.split_at(cmp::min(*fixed_array_len, data.len()));", "data.split_at(cmp::min(cmp::min(*fixed_array_len, 8), data.len()));"),
]
specs = json.load(open('/verif/selftest/mutants.json'))
have = {s["name"] for s in specs}
os.makedirs('/tmp/mutwork', exist_ok=True)
for name, prop, exp, rel, old, new in MUT:
    d = '/tmp/mutwork/' + name
    shutil.rmtree(d, ignore_errors=True); os.makedirs(d + '/a'); os.makedirs(d + '/b')
    for sub in ('a', 'b'):
        os.makedirs(os.path.dirname(f'{d}/{sub}/{rel}'), exist_ok=True)
        shutil.copy('/repo/' + rel, f'{d}/{sub}/{rel}')
    s = open(f'{d}/b/{rel}').read()
    if s.count(old) != 1:
        print('SKIP (pattern count %d): %s' % (s.count(old), name)); continue
    open(f'{d}/b/{rel}', 'w').write(s.replace(old, new))
    r = subprocess.run(['diff', '-u', f'a/{rel}', f'b/{rel}'], cwd=d, stdout=subprocess.PIPE, text=True)
    open(f'/verif/selftest/mutants/{name}.patch', 'w').write(r.stdout)
    if name not in have:
        specs.append({"name": name, "patch": name + ".patch", "property": prop, "expect": exp, "reverse": False})
json.dump(specs, open('/verif/selftest/mutants.json', 'w'), indent=1)
shutil.rmtree('/tmp/mutwork', ignore_errors=True)
print(len(specs), 'mutants registered')
