#!/usr/bin/env python3
"""set_caught.py <seed-name> <property> <key> [<key>...]: record in seeded/<name>/meta.json which rule instance reports the change"""
import json, os, sys
name, prop, keys = sys.argv[1], sys.argv[2], sys.argv[3:]
p = os.path.join(os.path.dirname(os.path.dirname(os.path.abspath(__file__))), "seeded", name, "meta.json")
m = json.load(open(p))
m["caught_by"] = [c for c in m.get("caught_by", []) if c["property"] != prop] + [{"property": prop, "expect": keys}]
if len(sys.argv) > 3 and os.environ.get("STRENGTHENED"):
    m["strengthened"] = os.environ["STRENGTHENED"]
json.dump(m, open(p, "w"), indent=1)
