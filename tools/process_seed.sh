#!/bin/bash
# process_seed.sh <worktree-id> <seed-name> <property>: verify in the worktree, keep under seeded/, run current rules on it
WID=$1; NAME=$2; PROP=$3
echo "=== $WID -> $NAME"
OUT=$(tools/verify_seed.sh /tmp/wt/$WID demo_${WID,,} 2>&1)
echo "$OUT" | grep "^test \|test result" | grep -v "ok. [0-9]* passed; 0 failed; [01] ignored; 0 measured; 0 filtered out; finished in 0.0[0-9]s" | tail -14
SUMMARY=$(echo "$OUT" | grep "test result" | tr '\n' ' ' | cut -c1-600)
python3 tools/keep_seed.py /tmp/wt/$WID $NAME $PROP "tools/verify_seed.sh /tmp/wt/$WID demo_${WID,,}: $SUMMARY" > /dev/null
./vcheck selftest seeded/$NAME 2>&1 | grep "seeded/"
