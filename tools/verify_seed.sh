#!/bin/bash
# verify a sub-agent's seeded change in its scratch worktree: suite passes with the change, demo fails
# with it and passes without it. usage: verify_seed.sh <worktree> <demo-test-name>
set -u
WT=$1; DEMO=$2
cd $WT || exit 2
export CARGO_NET_OFFLINE=true
echo "== patch applies to src only:"; git status --short | head
echo "== with change: existing suite (excluding the demo)"
mv tests/$DEMO.rs /tmp/$DEMO.rs.hold
cargo test --workspace --no-fail-fast --offline 2>&1 | grep -E "^test result|FAILED|error(\[|:)" | head -8
mv /tmp/$DEMO.rs.hold tests/$DEMO.rs
echo "== with change: demo"
timeout 600 cargo test --offline --test $DEMO ${FEATURES:-} 2>&1 | grep -E "^test |^test result|error(\[|:)" | head -12
echo "== without change: demo"
git diff -- src > /tmp/$DEMO.patch
git checkout -- src
timeout 600 cargo test --offline --test $DEMO ${FEATURES:-} 2>&1 | grep -E "^test |^test result|error(\[|:)" | head -12
git apply /tmp/$DEMO.patch
echo "== re-applied"; git status --short | head -5
