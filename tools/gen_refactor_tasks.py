#!/usr/bin/env python3
"""gen_refactor_tasks.py <round letter>: list, per group of source files, the functions the rules look at (run tools/anchors.py
first: it writes /tmp/anchors.json), marking those already refactored by an earlier round of benign/ patches; writes
/tmp/anchors_<R><i>.txt for i = 1..8 (given to sub-agents as FUNCTIONS.txt with tools/refactor_task_{a,b}.txt)."""
import json, glob, re, sys
R = sys.argv[1]
done = set()
for n in glob.glob('/verif/benign/*.notes.json'):
    try:
        for e in json.load(open(n)):
            for w in re.findall(r"[A-Za-z_][A-Za-z0-9_]*(?:::[A-Za-z_<>'][A-Za-z0-9_<>' ,]*)+|[a-z_][a-z0-9_]{4,}", e.get('function', '')):
                done.add(w.split('::')[-1])
    except Exception as ex:
        print(n, ex)
a = json.load(open('/tmp/anchors.json'))
groups = {
    "1": [r"^src/creator/content_pack/"],
    "2": [r"^src/creator/directory_pack/", r"^src/creator/manifest_pack.rs", r"^src/bases/types/delayed.rs"],
    "3": [r"^src/creator/(mod|basic_creator|container_pack)\.rs", r"^src/tools.rs"],
    "4": [r"^src/bases/io/", r"^src/bases/reader.rs", r"^src/bases/block.rs"],
    "5": [r"^src/bases/(parsing|write)\.rs", r"^src/common/"],
    "6": [r"^src/reader/content_pack/", r"^src/reader/byte_"],
    "7": [r"^src/reader/(jubako|container_pack|locator|manifest_pack|missing)\.rs"],
    "8": [r"^src/reader/directory_pack/", r"^src/bases/types/"],
}
for g, pats in groups.items():
    items = sorted((f, l, n) for n, (f, l) in a.items() if f and any(re.search(p, f) for p in pats))
    fresh = [x for x in items if re.sub(r"<.*", "", x[2]).split('::')[-1] not in done]
    open('/tmp/anchors_%s%s.txt' % (R, g), 'w').write("\n".join("%s:%s  %s%s" % (x[0], x[1], x[2], "" if x in fresh else "   (already refactored in an earlier round: prefer others)") for x in items))
    print(R + g, len(items), len(fresh))
