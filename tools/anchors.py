import sys, os, json, collections
sys.path.insert(0, '/verif/rules')
import lib, engine
seen = collections.OrderedDict()
orig = lib.Facts.body
def body(self, f):
    if isinstance(f, int): f = self.fns[f]
    seen.setdefault(f["name"], (f.get("file"), f.get("line")))
    return orig(self, f)
lib.Facts.body = body
counts = collections.Counter()
for pid in open('/verif/rules/CLAIMED').read().split():
    before = set(seen)
    engine.run_property(pid, "quick", quiet=True, write_evidence=False)
    for n in set(seen) - before: counts[n] += 0
json.dump({k: v for k, v in seen.items()}, open('/tmp/anchors.json', 'w'), indent=0)
byfile = collections.defaultdict(list)
for k, (f, l) in seen.items(): byfile[f].append((l, k))
for f in sorted(byfile): print(f, len(byfile[f]))
