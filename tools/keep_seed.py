#!/usr/bin/env python3
"""copy a verified sub-agent seed into /verif/seeded/<name>/ : keep_seed.py <worktree> <name> <property> '<what I ran>' [caught rule keys...]"""
import json, os, shutil, sys
wt, name, prop, ran = sys.argv[1:5]
caught = sys.argv[5:]
d = os.path.join("/verif/seeded", name)
os.makedirs(d, exist_ok=True)
shutil.copy(os.path.join(wt, "SEED", "patch.diff"), os.path.join(d, "patch.diff"))
shutil.copy(os.path.join(wt, "SEED", "demo.rs"), os.path.join(d, "demo.rs"))
am = json.load(open(os.path.join(wt, "SEED", "meta.json")))
meta = {"property": prop, "summary": am.get("summary"), "needs_to_manifest": am.get("needs_to_manifest"), "files_changed": am.get("files_changed"),
        "origin": "independent sub-agent given only the property text and a scratch worktree",
        "confirmed_by_me": ran,
        "caught_by": ([{"property": prop, "expect": caught}] if caught else [])}
json.dump(meta, open(os.path.join(d, "meta.json"), "w"), indent=1)
print("kept", d)
