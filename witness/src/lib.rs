//! E4 — compile-fail witnesses with compiling twins (run with `cargo +nightly test --doc` so the error
//! codes are honoured). Each witness names the crate as an external user would; the twin differs only by
//! the offending line, so a witness cannot pass because a path is merely wrong.

/// C09-R4: `PackRecipient::close_file` consumes the recipient (`self: Box<Self>`): nothing can be written
/// to an output file after it has been persisted at its destination.
///
/// ```compile_fail,E0382
/// use jubako::creator::{AtomicOutFile, PackRecipient};
/// use std::io::Write;
/// let mut f = AtomicOutFile::new("witness_out.bin").unwrap();
/// f.write_all(b"before").unwrap();
/// let _path = f.close_file().unwrap();
/// f.write_all(b"late write").unwrap(); // use of moved value
/// ```
///
/// twin (compiles):
/// ```no_run
/// use jubako::creator::{AtomicOutFile, PackRecipient};
/// use std::io::Write;
/// let mut f = AtomicOutFile::new("witness_out.bin").unwrap();
/// f.write_all(b"before").unwrap();
/// let _path = f.close_file().unwrap();
/// ```
pub mod c09_close_consumes {}

/// C01/C08/C09: `ContentPackCreator::finalize` consumes the creator: no insertion after finalisation.
///
/// ```compile_fail,E0382
/// use jubako::creator::{ContentPackCreator, Compression};
/// let mut c = ContentPackCreator::new("w.jbkc", jubako::PackId::from(1), jubako::VendorId::new([0; 4]), Default::default(), Compression::None).unwrap();
/// c.add_content(Box::new(std::io::Cursor::new(vec![1u8, 2, 3])), Default::default()).unwrap();
/// let _ = c.finalize().unwrap();
/// c.add_content(Box::new(std::io::Cursor::new(vec![4u8])), Default::default()).unwrap(); // use of moved value
/// ```
///
/// twin (compiles):
/// ```no_run
/// use jubako::creator::{ContentPackCreator, Compression};
/// let mut c = ContentPackCreator::new("w.jbkc", jubako::PackId::from(1), jubako::VendorId::new([0; 4]), Default::default(), Compression::None).unwrap();
/// c.add_content(Box::new(std::io::Cursor::new(vec![1u8, 2, 3])), Default::default()).unwrap();
/// let _ = c.finalize().unwrap();
/// ```
pub mod c01_finalize_consumes {}

/// C07: the reader views can be shared between threads; the raw decompression buffer types cannot even be
/// named outside the crate.
///
/// ```no_run
/// fn assert_send_sync<T: Send + Sync>() {}
/// fn assert_static<T: 'static>() {}
/// assert_send_sync::<jubako::reader::Container>();
/// assert_send_sync::<jubako::reader::ByteRegion>();
/// assert_static::<jubako::reader::ByteRegion>();
/// assert_send_sync::<jubako::reader::ContentPack>();
/// assert_send_sync::<jubako::Reader>();
/// ```
///
/// the raw buffer hands are private (module `bases` is private):
/// ```compile_fail,E0603
/// use jubako::bases::SeekableDecoder;
/// ```
///
/// twin (compiles): a public item of the same crate is nameable
/// ```no_run
/// use jubako::reader::ByteRegion;
/// use jubako::FileSource;
/// ```
pub mod c07_shared_views {}

/// C05: `CheckReader` (the only type that can parse metadata) cannot be constructed by user code.
///
/// ```compile_fail,E0603
/// use jubako::bases::CheckReader;
/// ```
///
/// twin (compiles):
/// ```no_run
/// use jubako::Reader;
/// ```
pub mod c05_check_reader_private {}
