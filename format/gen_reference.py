#!/usr/bin/env python3
"""Prints the layouts extracted from the current tree in the shape of reference_v0_2.json
("structures" section). Used ONCE on the pinned tree to draft the table, which was then read
line by line against the sources / DESIGN.md Appendix A and frozen. Never run by a check."""
import json, os, sys
sys.path.insert(0, os.path.join(os.path.dirname(os.path.abspath(__file__)), "..", "rules"))
os.environ.setdefault("JBK_REF_BOOTSTRAP", "1")
import extract, layout
from lib import Facts
out, _ = extract.facts_path("lib-all3")
F = Facts(os.path.join(out, "jubako.lib.json"))
import importlib
p = os.path.join(os.path.dirname(os.path.abspath(__file__)), "reference_v0_2.json")
if not os.path.exists(p):
    json.dump({"structures": {}}, open(p, "w"))
import ref
res = {}
for name in ref.STRUCTS:
    wl, rl, wf, rf = ref.extracted(F, name)
    e = {}
    if wl is not None:
        e["w"] = layout.to_json(wl)
        t = layout.fixed_total(wl)
        if t is not None:
            e["size"] = t
    if rl is not None:
        e["r"] = layout.to_json(rl)
        t = layout.fixed_total(rl)
        if t is not None:
            e["size"] = t
    res[name] = e
print(json.dumps(res, indent=1))
