#!/usr/bin/env python3
"""Freeze the names of all functions of the analysed crates at the pinned (repaired) tree: rules/inline.py treats
every function NOT in this list as transparent (inlined into its callers). Regenerate only when the rules have
been re-confirmed against a new tree."""
import json, os, sys
HERE = os.path.dirname(os.path.abspath(__file__))
sys.path.insert(0, os.path.join(os.path.dirname(HERE), "rules"))
import extract
import renames
names = set()
records = {}
closures = {}
for cfg in extract.THOROUGH:
    out, sha = extract.facts_path(cfg)
    for fn in ("jubako.lib.json", "jbk.bin.json"):
        p = os.path.join(out, fn)
        if os.path.exists(p):
            fns = json.load(open(p))["fns"]
            for f in fns:
                names.add(f["name"])
            for k, v in renames.baseline_records(fns).items():
                records.setdefault(k, v)
            for k, v in renames.baseline_closures(fns).items():
                for fp in v:
                    if fp not in closures.setdefault(k, []):
                        closures[k].append(fp)
json.dump({"functions": sorted(names), "records": records, "closures": closures}, open(os.path.join(HERE, "baseline_functions.json"), "w"), indent=0)
print(len(names), "functions")
